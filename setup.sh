#!/bin/bash
# Offline, idempotent setup: hypothesis into /venv (if missing), atheris into /verif/.deps (if missing).
cd "$(dirname "$0")"
export PIP_NO_INDEX=1
W=/opt/veriftools/wheels
/venv/bin/python -c "import hypothesis" 2>/dev/null || /venv/bin/pip install --no-index --find-links $W hypothesis || exit 1
mkdir -p .deps
PYTHONPATH=.deps /venv/bin/python -c "import atheris" 2>/dev/null || /venv/bin/pip install --no-index --find-links $W --target .deps atheris >/dev/null 2>&1 || echo "setup: atheris not installable (C15 byte-level fuzzing falls back to Hypothesis only)"
mkdir -p evidence replays
/venv/bin/python -c "import hypothesis, rdkit, numpy, scipy, networkx; print('setup ok: hypothesis', hypothesis.__version__)"
