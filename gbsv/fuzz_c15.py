"""atheris (libFuzzer) target for C15 termination: every constructor on arbitrary bytes under the step budget.

usage: python -m gbsv.fuzz_c15 [libFuzzer args] <corpus dir>
A budget overrun is raised as an ordinary exception so that libFuzzer saves the input as crash-*.
"""
import os
import sys

from . import env

import atheris  # noqa: E402

with atheris.instrument_imports(include=["gbigsmiles"]):
    import gbigsmiles

if not os.path.abspath(gbigsmiles.__file__).startswith(env.REPO_SRC + os.sep):
    print("HARNESS-ERROR: gbigsmiles resolves outside the repository tree")
    sys.exit(2)
try:
    from rdkit import RDLogger
    RDLogger.DisableLog("rdApp.*")
except Exception:  # noqa: BLE001
    pass

from . import probe  # noqa: E402

ROOT = os.path.join(env.REPO_SRC, "gbigsmiles")


class BudgetExceeded(Exception):
    pass


def one(data):
    if len(data) < 2 or len(data) > 400:
        return
    try:
        s = data[1:].decode("utf-8")
    except UnicodeDecodeError:
        return
    k = data[0] % 5
    g = gbigsmiles
    ctor = [g.System, g.Molecule, lambda t: g.Stochastic(t, 0), lambda t: g.SmilesToken(t, 0, 0),
            lambda t: g.BondDescriptor(t, 0, "", 0)][k]
    try:
        with probe.StepCounter(20000 + 2000 * len(s), ROOT):
            ctor(s)
    except probe.StepBudget:
        raise BudgetExceeded(f"ctor {k} on {s!r}")
    except MemoryError:
        raise BudgetExceeded(f"memory: ctor {k} on {s!r}")
    except Exception:  # noqa: BLE001 - rejection is fine
        pass


def main():
    atheris.Setup(sys.argv, one)
    atheris.Fuzz()


if __name__ == "__main__":
    main()
