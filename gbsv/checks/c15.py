"""C15 - ill-formed notation and misuse are rejected, never silently reinterpreted; parsing terminates.

Domain: a valid, well-posed instance of every archetype x one breaking operator (each invalid by
construction), plus byte-level mutations of valid strings for termination.
Oracle: a broken string must end in an error - at parse, or (not generable and generate raises), or at
generate; producing a molecule is the violation.  Termination: deterministic step budget (line events).
"""
import os
import json
import re

import numpy as np
from hypothesis import strategies as st

from .. import env, probe, reflaw
from ..acc import Acc
from ..ast import BD, Mol, Stoch, Tok
from ..hyp import drive
from ..strategies import molecules

ID = "C15"
LEVEL = "exploration"
RULE = ("a valid well-posed molecule of a generated archetype x one breaking operator applied at a generated position "
        "(every operator yields an invalid string by construction: bracket/brace/branch imbalance, descriptor between two "
        "atoms, unknown symbol or distribution, wrong list length, negative weight, text after the mixture, percent out "
        "of range, missing distribution, missing or differing prefix), plus byte-level mutations of valid strings for "
        "termination; non-trivial = the valid instance had >=2 elements or >=3 tokens; distinct = (operator, broken string)")
ASSUMPTIONS = ["'rejected' = any exception at parse or at generate, or generable False together with generate raising; "
               "the exception type is recorded, not judged",
               "termination is a bounded-liveness surrogate: line events inside gbigsmiles <= 20000 + 2000*len(input) "
               "(valid inputs need about 20 events per character)"]

QUICK = {"ops": 9000, "bytes": 12000}
THOROUGH = {"ops": 60000, "bytes": 200000}

OPERATORS = ["drop_paren", "insert_paren", "drop_bracket", "drop_brace", "bd_between_atoms", "unknown_symbol",
             "unknown_distribution", "list_length", "negative_weight", "negative_list_entry", "text_after_mixture",
             "percent_range", "no_distribution", "drop_prefix", "prefix_symbol", "prefix_id", "open_mixture", "prefix_call"]


# operators that break the *notation* (the constructor is the place where such a string is answered); the others break a rule of
# generation (negative weight, missing distribution, prefix mismatch), where a non-generable object / an error at generate() is the answer
PARSE_LEVEL = {"drop_paren", "insert_paren", "drop_bracket", "drop_brace", "bd_between_atoms", "unknown_symbol", "unknown_distribution",
               "list_length", "text_after_mixture", "percent_range", "open_mixture"}


def plan(tier, seed):
    cfgs = [{} for _ in range(14 if tier == "quick" else 8)]
    if tier == "quick":
        cfgs += [{"mode": "atheris", "corpus": True, "runs": 20000}, {"mode": "atheris", "corpus": False, "runs": 20000}]
    else:
        cfgs += [{"mode": "atheris", "corpus": k % 2 == 0, "seconds": 300, "k": k} for k in range(8)]
    return cfgs


def _atheris_shard(cfg):
    """coverage-guided byte-level fuzzing of the five constructors under the step budget (separate process)"""
    import glob
    import shutil
    import subprocess
    import sys
    import tempfile
    import gbigsmiles as g
    from .. import corpus

    acc = Acc()
    tmp = tempfile.mkdtemp(prefix="gbsv_fz_")
    try:
        cdir = os.path.join(tmp, "corpus")
        os.makedirs(cdir)
        if cfg.get("corpus"):
            for i, s_ in enumerate(sorted(corpus.harvest())):
                for k in range(5):
                    with open(os.path.join(cdir, f"c{i}_{k}"), "wb") as fh:
                        fh.write(bytes([k]) + s_.encode())
        args = [sys.executable, "-m", "gbsv.fuzz_c15", f"-seed={cfg['seed'] % (2**31 - 1) + 1}", "-max_len=300",
                f"-artifact_prefix={tmp}/", "-print_final_stats=1"]
        if "runs" in cfg:
            args.append(f"-runs={cfg['runs']}")
            limit = 600
        else:
            args.append(f"-max_total_time={cfg['seconds']}")
            limit = cfg["seconds"] + 120
        args.append(cdir)
        envv = dict(os.environ)
        envv["PYTHONPATH"] = os.path.join(env.VERIF_ROOT, ".deps") + os.pathsep + env.VERIF_ROOT
        try:
            proc = subprocess.run(args, cwd=tmp, env=envv, capture_output=True, text=True, timeout=limit)
            out = proc.stderr + proc.stdout
        except subprocess.TimeoutExpired as exc:
            out = (exc.stderr or b"").decode(errors="replace") if isinstance(exc.stderr, bytes) else str(exc.stderr or "")
            acc.count("atheris_outer_timeout")
        if "No module named" in out and "atheris" in out:
            acc.count("atheris_unavailable")
            acc.extra["atheris"] = ["unavailable"]
            return acc
        m = re.search(r"stat::number_of_executed_units:\s*(\d+)", out)
        nexec = int(m.group(1)) if m else 0
        cov = re.findall(r"cov: (\d+)", out)
        acc.extra["atheris"] = [{"corpus": bool(cfg.get("corpus")), "executions": nexec, "final_cov": int(cov[-1]) if cov else None}]
        acc.count("atheris_executions", nexec)
        ctors = {0: ("System", g.System), 1: ("Molecule", g.Molecule), 2: ("Stochastic", lambda t: g.Stochastic(t, 0)),
                 3: ("SmilesToken", lambda t: g.SmilesToken(t, 0, 0)), 4: ("BondDescriptor", lambda t: g.BondDescriptor(t, 0, "", 0))}
        for f in sorted(glob.glob(os.path.join(tmp, "crash-*")) + glob.glob(os.path.join(tmp, "oom-*")) + glob.glob(os.path.join(tmp, "timeout-*"))):
            data = open(f, "rb").read()
            try:
                txt = data[1:].decode("utf-8")
            except UnicodeDecodeError:
                continue
            cname, ctor = ctors[data[0] % 5]
            status, val = parse_guarded(ctor, txt)
            acc.case(("atheris", cname, txt), labels=["atheris:saved_input:" + status])
            if status == "budget":
                acc.violation("terminates", f"[atheris] {cname}({txt!r}) exceeded the step budget {val}",
                              {"operator": "bytes", "broken": txt, "ctor": cname, "kind": "bytes"},
                              {"operator": "bytes", "ctor": cname, "open_mixture": bool(re.search(r"\.\|[^|]*$", txt))}, size=len(txt))
            else:
                acc.count("atheris_saved_input_not_reproduced")
        # the campaign itself counts as evaluations (measured by libFuzzer)
        acc.evaluations += nexec
        return acc
    finally:
        shutil.rmtree(tmp, ignore_errors=True)


def budget(s):
    return 20000 + 2000 * len(s)


def parse_guarded(ctor, text, *args):
    """('ok', obj) | ('raise', exc) | ('budget', n)"""
    root = os.path.join(env.REPO_SRC, "gbigsmiles")
    try:
        with probe.alarm(60):
            with probe.StepCounter(budget(text), root):
                return "ok", ctor(text, *args)
    except probe.StepBudget:
        return "budget", budget(text)
    except probe.Timeout:
        return "budget", -1
    except MemoryError:
        return "budget", -2
    except RecursionError as exc:
        return "raise", exc
    except Exception as exc:  # noqa: BLE001
        return "raise", exc


# -------------------------------------------------------------------------------------------- operators
def _spans(mol: Mol):
    """character spans of every written token text inside mol.text(False); list of (start, end, Tok, element index)"""
    text = mol.text(False)
    out = []
    pos = 0
    for ei, (e, w) in enumerate(zip(mol.elements, mol.written)):
        if isinstance(e, Tok):
            out.append((pos, pos + len(w), e, ei))
        else:
            p = pos
            for t in e.tokens:
                k = text.find(t.text_ext, p)
                if k < 0:
                    continue
                out.append((k, k + len(t.text_ext), t, ei))
                p = k + len(t.text_ext)
        pos += len(w)
    return text, out


def apply_operator(draw, op, mol: Mol):
    """returns (broken text, expectation note, ctor kind) or None if the operator does not apply"""
    text, spans = _spans(mol)
    stochs = [e for e in mol.elements if isinstance(e, Stoch)]
    if op == "drop_paren":
        cands = [(a + i) for a, b, t, _ in spans for i, ch in enumerate(text[a:b]) if ch in "()"]
        if not cands:
            return None
        k = draw(st.sampled_from(cands))
        return text[:k] + text[k + 1:], "unbalanced branch", "mol"
    if op == "insert_paren":
        cands = [(a, b) for a, b, t, _ in spans if b - a >= 2]
        if not cands:
            return None
        a, b = draw(st.sampled_from(cands))
        # only at positions outside brackets so that the character is read as a branch symbol
        pos = [i for i in range(a, b + 1) if text[:i].count("[") == text[:i].count("]")]
        k = draw(st.sampled_from(pos))
        return text[:k] + draw(st.sampled_from("()")) + text[k:], "unbalanced branch", "mol"
    if op == "drop_bracket":
        cands = [i for i, ch in enumerate(text) if ch in "[]"]
        k = draw(st.sampled_from(cands))
        return text[:k] + text[k + 1:], "unbalanced bracket", "mol"
    if op == "drop_brace":
        cands = [i for i, ch in enumerate(text) if ch in "{}"]
        if not cands:
            return None
        k = draw(st.sampled_from(cands))
        return text[:k] + text[k + 1:], "unbalanced brace", "mol"
    if op == "bd_between_atoms":
        # a descriptor written between two chain atoms bonds to both: find 'XY' of two plain atoms
        cands = []
        for a, b, t, _ in spans:
            for m in re.finditer(r"(?<![\[%\d])(C|N|O|S|P|B)(?=(C|N|O|S|P|B|F|I)(?![a-z]))", text[a:b]):
                i = a + m.end()
                if text[:i].count("[") == text[:i].count("]"):
                    cands.append(i)
            # ... or directly behind a closed branch, in front of the next chain atom: 'CC(C)' + [$] + 'CC'
            for m in re.finditer(r"\)(?=(C|N|O|S|P|B|F|I)(?![a-z]))", text[a:b]):
                i = a + m.end()
                if text[:i].count("[") == text[:i].count("]") and text[a:i].count("(") == text[a:i].count(")"):
                    cands.append(i)
        if not cands:
            return None
        k = draw(st.sampled_from(cands))
        sym = draw(st.sampled_from(["[$]", "[<]", "[>]", "[$1]", "[$|0.5|]", "[>|2.0|]", "[<|3.|]", "[$|.5|]", "[$|2|]", "[<|1e-1|]", "[>7|0.25|]"]))
        return text[:k] + sym + text[k:], "descriptor bonds two atoms", "mol"
    if op == "unknown_symbol":
        cands = [m.start() + 1 for m in re.finditer(r"\[[$<>]", text)]
        if not cands:
            return None
        k = draw(st.sampled_from(cands))
        return text[:k] + draw(st.sampled_from("&%?!~")) + text[k + 1:], "unknown descriptor symbol", "mol"
    if op == "unknown_distribution":
        ms = list(re.finditer(r"\|([a-z_]+)\(", text))
        if not ms:
            return None
        m = draw(st.sampled_from(ms))
        name = m.group(1)
        new = draw(st.sampled_from(["normal", "gaus", "weibull", name[:-1], name + "ian", name + "2", "x" + name, name.upper(),
                                    name.replace("_", ""), "flory", "schulz"]))
        if new in ("gauss", "uniform", "schulz_zimm", "log_normal", "poisson", "flory_schulz"):
            return None
        return text[:m.start(1)] + new + text[m.end(1):], "unknown distribution name", "mol"
    if op in ("list_length", "negative_list_entry"):
        ms = list(re.finditer(r"\[[$<>]\d*\|([^|\]]* [^|\]]*)\|\]", text))
        if not ms:
            if op == "negative_list_entry" or not stochs:
                return None
            m, items = None, []
        else:
            m = draw(st.sampled_from(ms))
            items = m.group(1).split()
        if op == "list_length" and (m is None or draw(st.integers(0, 2)) == 0):
            # give a descriptor that has no list (repeat unit, end group or terminal) a list of wrong length
            sto = draw(st.sampled_from(stochs)) if stochs else None
            inside = lambda i: text[:i].count("{") > text[:i].count("}")  # noqa: E731 - only descriptors of stochastic objects
            ms2 = [x for x in re.finditer(r"\[[$<>]\d*(\|[^|\] ]*\|)?\]", text) if inside(x.start())]
            if sto is not None and ms2:
                m2 = draw(st.sampled_from(ms2))
                ndesc = [len(x.bds) for x in stochs]
                n = draw(st.integers(2, 9))
                if n in ndesc:
                    n = max(ndesc) + 1
                lst = [str(draw(st.sampled_from([0, 1, 2, 3]))) for _ in range(n)]
                if all(x == "0" for x in lst):
                    lst[0] = "1"
                head = text[m2.start(): m2.end()]
                head = re.sub(r"\|[^|]*\|", "", head)[:-1]
                return text[:m2.start()] + head + "|" + " ".join(lst) + "|]" + text[m2.end():], "transition list of wrong length", "mol"
        if m is None:
            return None
        if op == "list_length":
            if draw(st.booleans()) and len(items) > 2:
                del items[draw(st.integers(0, len(items) - 1))]
            else:
                items.insert(draw(st.integers(0, len(items))), draw(st.sampled_from(["0", "1", "2.5"])))
            return text[:m.start(1)] + " ".join(items) + text[m.end(1):], "transition list of wrong length", "mol"
        k = draw(st.integers(0, len(items) - 1))
        items[k] = "-" + (items[k] if float(items[k]) != 0 else draw(st.sampled_from(["1", ".5", "2."])))
        return text[:m.start(1)] + " ".join(items) + text[m.end(1):], "negative list entry", "mol"
    if op == "negative_weight":
        ms = list(re.finditer(r"\[[$<>]\d*\|([^|\] ]+)\|\]", text))
        if ms and draw(st.booleans()):
            m = draw(st.sampled_from(ms))
            if float(m.group(1)) == 0:
                return text[:m.start(1)] + "-1" + text[m.end(1):], "negative weight", "mol"
            return text[:m.start(1)] + "-" + m.group(1) + text[m.end(1):], "negative weight", "mol"
        ms = list(re.finditer(r"\[[$<>]\d*(?=\])", text))
        if not ms:
            return None
        m = draw(st.sampled_from(ms))
        return text[:m.end()] + "|-" + draw(st.sampled_from(["1", "0.5", "3", ".5", ".1e1", "2.", "1e-3", "0.0001"])) + "|" + text[m.end():], "negative weight", "mol"
    if op == "text_after_mixture":
        tail = draw(st.sampled_from(["CC", "C", "{[][$]C[$][]}", "x", "[H]"]))
        return text + ".|" + draw(st.sampled_from(["50%", "500", "5e3"])) + "|" + tail, "text after mixture specifier", "mol_only"
    if op == "percent_range":
        v = draw(st.sampled_from(["-5", "-0.001", "100.5", "101", "250", "1e3", "-1e-9"]))
        return text + ".|" + v + "%|", "percentage outside 0-100", draw(st.sampled_from(["mol", "sys"]))
    if op == "no_distribution":
        ms = list(re.finditer(r"\}\|[^|]*\|", text))
        if not ms:
            return None
        m = draw(st.sampled_from(ms))
        return text[:m.start() + 1] + text[m.end():], "stochastic object without distribution (not generable)", "mol"
    if op == "prefix_call":
        # misuse at call level: generate(prefix=...) with no prefix / a prefix whose open descriptor differs from the left terminal,
        # optionally after a correct call on the same object
        if not isinstance(mol.elements[0], Tok) or len(mol.elements) < 2 or not isinstance(mol.elements[1], Stoch):
            return None
        pre, sto = mol.elements[0], mol.elements[1]
        if len(pre.atts) != 1:
            return None
        rest = "".join(mol.written[1:])
        bd = pre.atts[-1][1]
        core = pre.text_ext[: len(pre.text_ext) - len(bd.text(True))]
        how = draw(st.sampled_from(["missing", "symbol", "id"]))
        if how == "missing":
            bad = None
        elif how == "symbol":
            bad = core + BD(draw(st.sampled_from([x for x in "$<>" if x != bd.symbol])), bd.id, None, bd.order).text(True)
        else:
            ids = sorted({b.id for b in sto.repeat_bds if b.id != bd.id}, key=repr)
            pool = ids + [99] if bd.id != 99 else ids + [98]
            bad = core + BD(bd.symbol, draw(st.sampled_from(pool)), None, bd.order).text(True)
        return {"good": pre.text_ext, "bad": bad, "rest": rest, "good_first": draw(st.integers(0, 2))}, \
            "generate(prefix=...) without the prefix / with a prefix whose open descriptor differs from the left terminal", "call"
    if op in ("drop_prefix", "prefix_symbol", "prefix_id"):
        if not isinstance(mol.elements[0], Tok) or len(mol.elements) < 2 or not isinstance(mol.elements[1], Stoch):
            return None
        pre, sto = mol.elements[0], mol.elements[1]
        rest = "".join(mol.written[1:])
        if op == "drop_prefix":
            return rest, "missing prefix for a non-empty left terminal", "mol"
        bd = pre.atts[-1][1]
        core = pre.text_ext[: len(pre.text_ext) - len(bd.text(True))]
        if op == "prefix_symbol":
            other = [s for s in "$<>" if s != bd.symbol]
            nb = BD(draw(st.sampled_from(other)), bd.id, None, 1)
        else:
            ids = sorted({b.id for b in sto.repeat_bds if b.symbol == ("$" if bd.symbol == "$" else {"<": ">", ">": "<"}[bd.symbol])
                          and b.id != bd.id}, key=repr)
            pool = ids + [99] if bd.id != 99 else ids + [98]
            nb = BD(bd.symbol, draw(st.sampled_from(pool)), None, 1)
        return core + nb.text(True) + rest, "prefix whose open descriptor differs from the left terminal", "mol"
    if op == "open_mixture":
        return text + ".|" + draw(st.sampled_from(["5", "50%", "", "1e3"])), "mixture specifier without closing bar", "sys"
    raise ValueError(op)


# ------------------------------------------------------------------------------------------------ oracle
def judge_call(acc, op, valid_text, spec, note, nontrivial):
    """call-level misuse on one parsed object, optionally after correct calls on the same object"""
    import gbigsmiles as g

    case = {"operator": op, "valid": valid_text, "broken": spec, "kind": "call"}
    sig = {"operator": op, "after_valid_calls": spec["good_first"] > 0}
    acc.case((op, json.dumps(spec, sort_keys=True)) if nontrivial else None, labels=["op:" + op, f"prefix_call:after_{spec['good_first']}_valid"])
    st_, rest = parse_guarded(g.Molecule, spec["rest"])
    if st_ != "ok":
        acc.label(f"outcome:{op}:rest_not_parsable")
        return

    def prefix(text):
        if text is None:
            return None
        return g.Molecule(text).generate(rng=np.random.default_rng(0))
    for k in range(spec["good_first"]):
        st_, res = probe.guarded(lambda: rest.generate(prefix=prefix(spec["good"]), rng=np.random.default_rng(10 + k)), seconds=60)
        if st_ != "ok":
            acc.label(f"outcome:{op}:valid_call_did_not_succeed")
            return
    produced = None
    for k in (1, 2, 3):
        st_, res = probe.guarded(lambda: rest.generate(prefix=prefix(spec["bad"]), rng=np.random.default_rng(k)), seconds=60)
        if st_ == "ok" and res is not None:
            try:
                produced = res.smiles
            except Exception:  # noqa: BLE001
                produced = None
            if produced is not None:
                break
    if produced is not None:
        acc.violation("rejected", f"{note}: Molecule({spec['rest']!r}).generate(prefix={spec['bad']!r}) after {spec['good_first']} correct call(s) with "
                      f"prefix {spec['good']!r} returns {produced!r}", case, sig, size=len(spec["rest"]))
    else:
        acc.label(f"outcome:{op}:generate_raise")


def judge(acc, op, valid_text, broken, note, kind, nontrivial):
    import gbigsmiles as g

    if kind == "call":
        return judge_call(acc, op, valid_text, broken, note, nontrivial)

    case = {"operator": op, "valid": valid_text, "broken": broken, "kind": kind}
    sig = {"operator": op}
    acc.case((op, broken) if nontrivial else None, labels=["op:" + op])
    ctors = [("Molecule", g.Molecule)] if kind in ("mol", "mol_only") else [("System", g.System)]
    if kind == "mol":
        ctors.append(("System", g.System))
    for cname, ctor in ctors:
        status, val = parse_guarded(ctor, broken)
        if status == "budget":
            acc.violation("terminates", f"{cname}({broken!r}) exceeded the step budget {val} ({note})", {**case, "ctor": cname}, {**sig, "ctor": cname})
            continue
        if status == "raise":
            acc.label(f"outcome:{op}:parse_raise")
            continue
        obj = val
        try:
            gen_flag = bool(obj.generable)
        except Exception:  # noqa: BLE001
            acc.label(f"outcome:{op}:generable_raises")
            continue
        produced = None
        for k in (1, 2, 3):
            st_, res = probe.guarded(lambda: obj.generate(rng=np.random.default_rng(k)), seconds=60)
            if st_ == "ok" and res is not None:
                try:
                    produced = res.smiles
                except Exception:  # noqa: BLE001
                    produced = "<molecule without valid SMILES>"
                    # an unsanitisable product is still an error for the caller as soon as it is used
                    produced = None
                if produced is not None:
                    break
            elif st_ == "timeout":
                acc.count("generate_timeout")
        if produced is not None:
            acc.violation("rejected", f"{note}: {cname}({broken!r}) is accepted (generable={gen_flag}) and generates {produced!r}\n valid instance: {valid_text!r}",
                          {**case, "ctor": cname}, {**sig, "generable": gen_flag}, size=len(broken))
        else:
            acc.label(f"outcome:{op}:{'nongenerable+' if not gen_flag else ''}generate_raise")
            if op in PARSE_LEVEL and gen_flag:
                # the notation itself is ill-formed: an object that presents itself as generable notation (and prints as something
                # else than was written) is "an object of different meaning", even if generating from it fails later
                try:
                    printed = str(obj)
                except Exception:  # noqa: BLE001
                    printed = "<str raised>"
                acc.violation("rejected", f"{note}: {cname}({broken!r}) returns an object that reports generable=True and prints as {printed!r} "
                              f"(only generate() fails)\n valid instance: {valid_text!r}", {**case, "ctor": cname}, {**sig, "generable": True, "deferred": True}, size=len(broken))
            if op in ("negative_weight", "no_distribution") and gen_flag:
                acc.violation("not_generable_flag", f"{note}: {cname}({broken!r}) reports generable=True", {**case, "ctor": cname}, sig, size=len(broken))


@st.composite
def op_case(draw):
    op = draw(st.sampled_from(OPERATORS))
    kw = {}
    if op in ("drop_prefix", "prefix_symbol", "prefix_id", "prefix_call"):
        kw["force_prefix"] = True
        if op == "prefix_id" and draw(st.booleans()):
            kw["arche"] = "twoid"
    if op in ("list_length", "negative_list_entry") and draw(st.booleans()):
        kw["lists"] = True
    mol = draw(molecules(max_blocks=2, max_atoms=5, small=True, plain_ok=False, **kw))
    res = apply_operator(draw, op, mol)
    if res is None:
        # fall back to an operator that always applies
        op = draw(st.sampled_from(["drop_bracket", "drop_brace", "text_after_mixture", "percent_range", "open_mixture", "negative_weight"]))
        res = apply_operator(draw, op, mol)
    return mol, op, res


_ALPH = list("()[]{}|.,;$<>=#-%0123456789 CNOSclBrFHeigas_un+@/\\")


@st.composite
def byte_case(draw):
    base = draw(st.sampled_from(BASES))
    s = list(base)
    for _ in range(draw(st.integers(1, 4))):
        k = draw(st.integers(0, 3))
        pos = draw(st.integers(0, max(0, len(s))))
        if k == 0 and s:
            del s[min(pos, len(s) - 1)]
        elif k == 1:
            s.insert(pos, draw(st.sampled_from(_ALPH)))
        elif k == 2 and s:
            s[min(pos, len(s) - 1)] = draw(st.sampled_from(_ALPH))
        else:
            a = draw(st.integers(0, len(s)))
            s = s[:a] + s[pos:] if pos > a else s[:pos] + s[a:]
    return "".join(s)


BASES = []


def run_shard(cfg):
    import gbigsmiles as g
    from .. import corpus

    if cfg.get("mode") == "atheris":
        return _atheris_shard(cfg)
    acc = Acc()
    n = THOROUGH if cfg["tier"] == "thorough" else QUICK
    per = {k: max(1, v // max(1, cfg["nshards"] - 2)) for k, v in n.items()}

    def f(x):
        mol, op, res = x
        if res is None:
            acc.count("operator_not_applicable")
            return
        ok, why = reflaw.well_posed(mol)
        if not ok:
            acc.count("base_ill_posed_skipped")
            return
        broken, note, kind = res
        nontrivial = len(mol.elements) >= 2 or len(mol.tokens) >= 3
        judge(acc, op, mol.text(False), broken, note, kind, nontrivial)
        if acc.evaluations % 23 == 0:
            acc.sample({"operator": op, "valid": mol.text(False), "broken": broken, "expect": note})
    drive(op_case(), f, per["ops"], cfg["seed"])

    # termination under byte-level mutation of valid strings (corpus + a few generated)
    BASES[:] = sorted(corpus.harvest())[:400] or ["CC{[$][$]CC[$][$]}|gauss(100,10)|CC.|50%|"]
    ctors = [("System", g.System), ("Molecule", g.Molecule), ("Stochastic", lambda s: g.Stochastic(s, 0)),
             ("SmilesToken", lambda s: g.SmilesToken(s, 0, 0)), ("BondDescriptor", lambda s: g.BondDescriptor(s, 0, "", 0))]

    def fb(s):
        cname, ctor = ctors[acc.evaluations % len(ctors)]
        status, val = parse_guarded(ctor, s)
        acc.case(("bytes", cname, s) if len(s) > 8 else None, labels=[f"bytes:{cname}:{status}"])
        if status == "budget":
            acc.violation("terminates", f"{cname}({s!r}) exceeded the step budget {val}", {"operator": "bytes", "broken": s, "ctor": cname, "kind": "bytes"},
                          {"operator": "bytes", "ctor": cname, "open_mixture": bool(re.search(r"\.\|[^|]*$", s))}, size=len(s))
    drive(byte_case(), fb, per["bytes"], cfg["seed"] + 1)
    return acc


def replay(case, rec):
    import gbigsmiles as g

    acc = Acc()
    if case.get("kind") == "bytes" or case.get("operator") == "bytes":
        ctor = {"System": g.System, "Molecule": g.Molecule, "Stochastic": lambda s: g.Stochastic(s, 0),
                "SmilesToken": lambda s: g.SmilesToken(s, 0, 0), "BondDescriptor": lambda s: g.BondDescriptor(s, 0, "", 0)}[case["ctor"]]
        status, val = parse_guarded(ctor, case["broken"])
        acc.case(("replay",))
        if status == "budget":
            acc.violation("terminates", f"{case['ctor']}({case['broken']!r}) exceeded the step budget", case, {})
        return acc
    judge(acc, case["operator"], case.get("valid", ""), case["broken"], "replay", case["kind"], True)
    return acc
