"""C13 - ensemble generation yields complete member molecules up to the system mass.

Domain: generable systems of 1-4 generated components (all archetypes) with system masses of 3-40 typical molecule
masses, iterated through System.generator with an explicit seeded generator and through the seeded global generator;
non-generable systems (under-determined mixtures, components without distribution / with negative weights).
Oracle: sequence invariant - every member fully generated, an instance of exactly one declared component (residue
decomposition against that component), partial sums s_{k-1} < S <= s_k, StopIteration afterwards; non-generable
systems refuse next() and generate(); generate() returns one complete member.
"""
import numpy as np
from hypothesis import strategies as st

from .. import gen, genoracle, probe, reflaw, refchem
from ..acc import Acc
from ..ast import Mol, Stoch, Sys, Tok
from ..hyp import drive
from ..strategies import molecules

ID = "C13"
LEVEL = "exploration"
RULE = ("generated systems of 1-4 well-posed molecules with consistent mixture specifications (absolute / percent mixed) and system "
        "masses of 3-40 typical molecule masses, iterated with seeded generators (again after a complete and an abandoned iteration; two "
        "iterations alive at once; one-component systems again with the system mass 2e-6 / 3e-9 (relative) above and below a partial sum); "
        "plus non-generable variants (all-percent, a "
        "component without distribution or with a negative weight); non-trivial = ensemble with >=3 members from >=2 different "
        "components; distinct = (system string, seed)")
ASSUMPTIONS = ["membership of a molecule in a component is decided by the residue tags + verification of gbsv/genoracle.py",
               "System.generator is driven through its property getter with an explicit generator"]

SIZES = {"quick": 1300, "thorough": 25000}


def plan(tier, seed):
    return [{} for _ in range(16)]


def typical_mass(m: Mol):
    tot = 0.0
    for e in m.elements:
        if isinstance(e, Tok):
            tot += refchem.heavy_mass(e)
        else:
            from ..refdist import Ref
            try:
                mean = Ref(e.dist.family, e.dist.params).mean
            except Exception:  # noqa: BLE001
                mean = 100.0
            tot += max(mean, 0) + max(refchem.heavy_mass(t) for t in e.repeat)
    return max(tot, 12.0)


@st.composite
def sys_case(draw, max_mols=4):
    n = draw(st.integers(1, max_mols))
    mols = []
    for _ in range(n):
        m = draw(molecules(max_blocks=2, max_atoms=4, small=True))
        mols.append(m)
    avg = sum(typical_mass(m) for m in mols) / n
    S = float(round(avg * draw(st.integers(3, 40))))
    parts = [draw(st.integers(1, 10)) for _ in range(n)]
    tot = sum(parts)
    kinds = [draw(st.sampled_from(["abs", "pct"])) for _ in range(n)]
    if "abs" not in kinds:
        kinds[draw(st.integers(0, n - 1))] = "abs"
    for m, k, p in zip(mols, kinds, parts):
        f = 100.0 * p / tot
        m.mix = ("pct", f) if k == "pct" else ("abs", f / 100.0 * S)
        m.mix_style = "float"
    broken = draw(st.sampled_from([None] * 4 + ["all_pct", "no_dist", "neg_weight"]))
    return Sys(mols), S, draw(st.integers(0, 2**31 - 1)), broken, draw(st.booleans())


def parse_sys(s: Sys, text):
    import gbigsmiles
    status, obj = probe.guarded(gbigsmiles.System, text)
    if status != "ok":
        return status, obj, None, None
    res = list(obj.residues)
    toks, comp_of = [], []
    for ci, m in enumerate(s.mols):
        for t in m.tokens:
            toks.append(t)
            comp_of.append(ci)
    idx = {id(r): k for k, r in enumerate(res)} if len(res) == len(toks) else {}
    return "ok", obj, idx, (toks, comp_of)


def member_check(acc, s: Sys, info, idx, mg, case, sig, text):
    """a yielded molecule is a complete instance of exactly one component"""
    toks, comp_of = info
    try:
        full = bool(mg.fully_generated)
    except Exception:  # noqa: BLE001
        full = None
    if full is not True:
        acc.violation("member_fully_generated", f"ensemble of {text!r} yielded a molecule with fully_generated={full}: {safe(mg)}", case, sig, size=len(text))
    tags = [mg.graph.nodes[n].get("gbsv_tok") for n in sorted(mg.graph.nodes())]
    if any(t is None or t < 0 for t in tags):
        acc.count("member_without_tags")
        return None
    comps = {comp_of[t] for t in tags}
    if len(comps) != 1:
        acc.violation("member_one_component", f"a yielded molecule mixes tokens of components {sorted(comps)}: {safe(mg)}", case, sig, size=len(text))
        return None
    ci = comps.pop()
    m = s.mols[ci]
    off = sum(len(x.tokens) for x in s.mols[:ci])
    parsed = gen.Parsed(m, None, {}, toks[off: off + len(m.tokens)])
    # re-tag relative to the component
    import networkx as nx
    g2 = mg.graph.copy()
    for n in g2.nodes():
        g2.nodes[n]["gbsv_tok"] = g2.nodes[n]["gbsv_tok"] - off

    class _MG:
        pass
    proxy = _MG()
    proxy.graph = g2
    proxy._mol = mg._mol
    proxy.mol = mg.mol
    proxy.weight = mg.weight
    proxy.fully_generated = full
    proxy.smiles = safe(mg)
    gres = gen.GenResult("ok", proxy, None, [], [])
    findings, facts = genoracle.evaluate(parsed, gres)
    for p, oracle, msg, sg in findings:
        if p in ("C04", "C05", "C06") and oracle not in ("fully_generated",):
            acc.violation("member_is_instance", f"yielded molecule {safe(mg)} is not a complete instance of component {ci} ({m.text(False)!r}): [{p}:{oracle}] {msg}",
                          case, {**sig, "sub": f"{p}:{oracle}"}, size=len(text))
            break
    return ci


def safe(mg):
    try:
        return mg.smiles
    except Exception as exc:  # noqa: BLE001
        return f"<smiles raised {exc!r}>"


def check(acc, s: Sys, S, seed, broken, use_global):
    import gbigsmiles
    import gbigsmiles.core as core

    for m in s.mols:
        ok, _ = reflaw.well_posed(m)
        if not ok:
            acc.count("rejected_by_closability_analysis")
            return
    # implicit precondition of the library: residue names are single letters (<= 26 residue ids per system; re-parsed
    # implicit tokens use up ids as well)
    if sum(len(m.tokens) + 2 * m.arche.count("implicit") for m in s.mols) > 24:
        acc.count("more_than_24_residue_ids_skipped")
        return
    if broken == "all_pct":
        for m in s.mols:
            if m.mix[0] == "abs":
                m.mix = ("pct", 100.0 * m.mix[1] / S)
    text = s.text()
    if broken == "no_dist":
        import re
        text2 = re.sub(r"\}\|[a-z_]+\([^)]*\)\|", "}", text, count=1)
        if text2 == text:
            broken = None
        text = text2
    if broken == "neg_weight":
        import re
        text2 = re.sub(r"\[([$<>]\d*)\]", r"[\1|-1|]", text, count=1)
        if text2 == text or "{" not in text:
            broken = None
        else:
            text = text2
    case = {"text": text, "ast": s.to_json(), "S": S, "seed": seed, "broken": broken, "use_global": use_global}
    sig = {"broken": broken}
    status, obj, idx, info = parse_sys(s, text)
    if status != "ok":
        acc.count(f"parse_{status}_dropped")
        return
    try:
        generable = bool(obj.generable)
    except Exception as exc:  # noqa: BLE001
        acc.count("generable_raises_dropped")
        return
    if broken is not None:
        # refusal
        acc.case((text, "refuse"), labels=["broken:" + broken, f"generable:{generable}"])
        if generable:
            acc.count("broken_variant_still_generable_skipped")
            return
        rng = probe.CountingRNG(seed)
        with probe.tag_residues(idx or {}):
            st1, v1 = probe.guarded(lambda: next(iter(probe.system_generator(obj, rng))), seconds=60)
            outs = []
            for k in range(4):
                st2, v2 = probe.guarded(lambda: obj.generate(rng=probe.CountingRNG(seed + k)), seconds=60)
                outs.append((st2, v2))
        if st1 == "ok":
            acc.violation("non_generable_iterates", f"System({text!r}) is not generable but iterating it yields {safe(v1)}", case, sig, size=len(text))
        for st2, v2 in outs:
            if st2 == "ok":
                acc.violation("non_generable_generates", f"System({text!r}) is not generable but generate() returns {safe(v2)}", case, sig, size=len(text))
                break
        return
    if not generable or not idx:
        acc.count("not_generable_or_untaggable_dropped")
        return
    try:
        Sobj = float(obj.system_mass)
    except Exception:  # noqa: BLE001
        acc.count("system_mass_unreadable")
        return
    rng = probe.CountingRNG(seed)
    members, comps = [], []
    total = 0.0
    problems = False
    with probe.tag_residues(idx):
        if use_global:
            core._GLOBAL_RNG.bit_generator.state = np.random.default_rng(seed).bit_generator.state
            it = iter(obj.generator)
        else:
            it = iter(probe.system_generator(obj, rng))
        prev_total = 0.0
        for step in range(100000):
            st_, mg = probe.guarded(lambda: next(it), seconds=120)
            if st_ == "raise" and isinstance(mg, StopIteration):
                break
            if st_ == "raise":
                if "updating stopped" in repr(mg):
                    acc.count("sampler_error_dropped")
                    return
                acc.case(None, labels=["iteration_raised"])
                acc.violation("iteration_raises", f"iterating System({text!r}) raised {mg!r} after {len(members)} members", case, {**sig, "error": type(mg).__name__}, size=len(text))
                return
            if st_ == "timeout":
                acc.count("timeout_dropped")
                return
            if prev_total >= Sobj:
                acc.violation("stops_at_system_mass", f"System({text!r}) S={Sobj}: member #{len(members) + 1} yielded although the accumulated mass {prev_total} already reached the system mass", case, sig, size=len(text))
                problems = True
                break
            ci = member_check(acc, s, info, idx, mg, case, sig, text)
            comps.append(ci)
            try:
                w = float(mg.weight)
            except Exception:  # noqa: BLE001
                w = float("nan")
            members.append(w)
            prev_total += w
        # after the end the iterator stays exhausted
        st_, extra = probe.guarded(lambda: next(it), seconds=60)
        if not problems and not (st_ == "raise" and isinstance(extra, StopIteration)):
            acc.violation("stays_exhausted", f"iterator of System({text!r}) yields again after it stopped", case, sig, size=len(text))
        # single-molecule generation
        st3, one = probe.guarded(lambda: obj.generate(rng=probe.CountingRNG(seed + 1)), seconds=120)
        if st3 == "ok":
            member_check(acc, s, info, idx, one, case, sig, text)
        elif st3 == "raise" and "updating stopped" not in repr(one):
            acc.violation("generate_raises", f"System({text!r}).generate() raised {one!r} on a generable system", case, {**sig, "error": type(one).__name__}, size=len(text))
    # the same object is iterated again (after a complete and after an abandoned iteration): the ensemble must again run up to
    # the system mass - nothing may be carried over from an earlier iteration
    if not problems and members:
        with probe.tag_residues(idx):
            it_ab = iter(probe.system_generator(obj, probe.CountingRNG(seed + 3)))
            probe.guarded(lambda: next(it_ab), seconds=120)  # abandoned after one molecule
            tot2, last2, n2, bad2 = 0.0, 0.0, 0, None
            it2 = iter(probe.system_generator(obj, probe.CountingRNG(seed + 2)))
            for step in range(100000):
                st_, mg = probe.guarded(lambda: next(it2), seconds=120)
                if st_ == "raise" and isinstance(mg, StopIteration):
                    break
                if st_ != "ok":
                    bad2 = "dropped" if (st_ == "timeout" or "updating stopped" in repr(mg)) else f"raised {mg!r}"
                    break
                try:
                    last2 = float(mg.weight)
                except Exception:  # noqa: BLE001
                    last2 = float("nan")
                tot2 += last2
                n2 += 1
        if bad2 is None:
            if not (n2 > 0 and tot2 >= Sobj and tot2 - last2 < Sobj):
                acc.violation("second_iteration", f"System({text!r}) S={Sobj}: iterating the same object again yields {n2} molecules with total mass {tot2} "
                              f"(before the last one {tot2 - last2}); the first iteration gave {len(members)} molecules / {sum(members)}", case, sig, size=len(text))
        elif bad2 != "dropped":
            acc.violation("second_iteration", f"System({text!r}): iterating the same object again {bad2}", case, sig, size=len(text))
    # two iterations of the same object alive at the same time, advanced alternately, each with its own generator: each must be
    # exactly the ensemble a solo iteration with that generator gives (nothing shared between iterations)
    if not problems and members and not use_global and seed % 3 == 0:
        def _drain(its):
            outs = [[] for _ in its]
            live = list(range(len(its)))
            for step in range(200000):
                if not live:
                    break
                for q in list(live):
                    st_, mg = probe.guarded(lambda: next(its[q]), seconds=120)
                    if st_ == "raise" and isinstance(mg, StopIteration):
                        live.remove(q)
                    elif st_ != "ok":
                        return None if (st_ == "timeout" or "updating stopped" in repr(mg)) else f"raised {mg!r}"
                    else:
                        outs[q].append((safe(mg), round(float(mg.weight), 6)))
            return outs
        with probe.tag_residues(idx):
            inter = _drain([iter(probe.system_generator(obj, probe.CountingRNG(seed + 10))), iter(probe.system_generator(obj, probe.CountingRNG(seed + 11)))])
            solo_a = _drain([iter(probe.system_generator(obj, probe.CountingRNG(seed + 10)))])
            solo_b = _drain([iter(probe.system_generator(obj, probe.CountingRNG(seed + 11)))])
        if isinstance(inter, str) or isinstance(solo_a, str) or isinstance(solo_b, str):
            which = inter if isinstance(inter, str) else (solo_a if isinstance(solo_a, str) else solo_b)
            acc.violation("interleaved_iterations", f"System({text!r}): two alternately advanced iterations of the same object: {which}", case, sig, size=len(text))
        elif inter is not None and solo_a is not None and solo_b is not None:
            acc.count("interleaved_iterations_checked")
            for name, got, want in (("first", inter[0], solo_a[0]), ("second", inter[1], solo_b[0])):
                if got != want:
                    acc.violation("interleaved_iterations", f"System({text!r}) S={Sobj}: the {name} of two alternately advanced iterations of the same object yields "
                                  f"{len(got)} molecules / total {sum(w for _, w in got):.6g}; alone, with the same generator, it yields {len(want)} / {sum(w for _, w in want):.6g}",
                                  case, sig, size=len(text))
                    break
    # near-tie: a one-component system draws the same molecules for any system mass (the component pick has one option), so the
    # system mass can be put just above / just below a partial sum of the sequence seen above
    if not problems and len(members) >= 2 and len(s.mols) == 1 and not use_global and broken is None:
        j = 1 + seed % (len(members) - 1)
        sj = sum(members[:j])
        for delta in (2e-6, -2e-6, 3e-9, -3e-9):
            S2 = sj * (1.0 + delta)
            if not (sj - members[j - 1] < S2):
                continue
            text2 = s.mols[0].text(False) + f".|{S2!r}|"
            st2, obj2 = probe.guarded(gbigsmiles.System, text2)
            if st2 != "ok":
                acc.count("near_tie_parse_dropped")
                continue
            try:
                S2obj = float(obj2.system_mass)
            except Exception:  # noqa: BLE001
                continue
            if abs(S2obj - S2) > 1e-12 * S2:
                acc.count("near_tie_mass_not_preserved(C12's business)")
                continue
            ws, bad = [], None
            it3 = iter(probe.system_generator(obj2, probe.CountingRNG(seed)))
            for step in range(100000):
                st_, mg = probe.guarded(lambda: next(it3), seconds=120)
                if st_ == "raise" and isinstance(mg, StopIteration):
                    break
                if st_ != "ok":
                    bad = True
                    break
                ws.append(float(mg.weight))
            if bad:
                acc.count("near_tie_run_dropped")
                continue
            acc.count("near_tie_runs")
            tot3 = sum(ws)
            if not ws or not (tot3 >= S2obj and tot3 - ws[-1] < S2obj):
                acc.violation("stops_at_system_mass", f"System({text2!r}): system mass {S2obj!r} lies {delta:+.0e} (relative) from the partial sum {sj!r} of the first {j} "
                              f"molecules; the ensemble has {len(ws)} members summing to {tot3!r}, before the last one {tot3 - (ws[-1] if ws else 0)!r} "
                              f"(must be  s_(k-1) < S <= s_k)", {**case, "near_tie": {"text": text2, "delta": delta}}, {**sig, "near_tie": True}, size=len(text))
    total = sum(members)
    if not problems:
        if not members:
            acc.violation("stops_at_system_mass", f"System({text!r}) S={Sobj} yielded nothing", case, sig, size=len(text))
        elif not (total >= Sobj and total - members[-1] < Sobj):
            acc.violation("stops_at_system_mass", f"System({text!r}) S={Sobj}: members sum to {total}, before the last one {total - members[-1]} "
                          f"(must be  s_(k-1) < S <= s_k)", case, sig, size=len(text))
    ncomp = len({c for c in comps if c is not None})
    acc.case((text, seed) if len(members) >= 3 and ncomp >= 2 else None,
             labels=[f"n_components:{len(s.mols)}", f"members:{min(len(members) // 5 * 5, 50)}", f"global:{use_global}"])
    if acc.evaluations % 7 == 0:
        acc.sample({"system": text, "S": Sobj, "seed": seed, "members": len(members), "component_sequence": comps[:25], "total": total})


def run_shard(cfg):
    acc = Acc()
    n = max(1, SIZES[cfg["tier"]] // cfg["nshards"])
    drive(sys_case(), lambda x: check(acc, *x), n, cfg["seed"])
    return acc


def replay(case, rec):
    acc = Acc()
    check(acc, Sys.from_json(case["ast"]), case["S"], case["seed"], case["broken"], case["use_global"])
    return acc
