"""C03 - bond-descriptor compatibility is exactly the BigSMILES conjugation rule.

Finite universe, enumerated completely: every ordered pair of descriptors over
{[], $, <, >} x ids x bond-order prefixes x weight forms, each descriptor built three ways
(constructor, parsed inside a token / as a terminal, and queried through the candidate filter
get_compatible_bond_descriptor_ids).  Oracle: truth table written from the statement.
"""
import itertools

from ..acc import Acc

ID = "C03"
LEVEL = "exploration"
RULE = ("all ordered pairs of descriptors over {[],$,<,>} x ids x prefixes {none,-,=,#,:} x weight forms "
        "{none,scalar,list}, three construction routes each; a pair is non-trivial when it is compatible or differs "
        "from a compatible pair in exactly one of symbol / id / bond order / emptiness (the decision boundary); "
        "distinct = distinct ordered pair of descriptor specs")
ASSUMPTIONS = ["truth table written from the property statement; none and '-' are single bonds"]

ORDER = {"": 1.0, "-": 1.0, "=": 2.0, "#": 3.0, ":": 1.5}
WEIGHTS = {"none": "", "scalar": "|2.5|", "list": "|1 0 3.5|", "zero": "|0|"}


def universe(tier):
    ids = [None] + list(range(13))
    spell = {}
    if tier == "thorough":
        ids += list(range(13, 41)) + [99, 100, 120]
    specs = []
    for sym in "$<>":
        for i in ids:
            for pre in ORDER:
                for w in ("none", "scalar", "list"):
                    specs.append((sym, i, pre, w, ""))
    if tier == "thorough":  # other spellings of the same numeric id, and a zero weight
        for sym in "$<>":
            for i in (0, 5, 12):
                for pre in ("", "="):
                    specs.append((sym, i, pre, "none", "lead0"))
                    specs.append((sym, i, pre, "zero", ""))
    for pre in ORDER:
        specs.append(("", None, pre, "none", ""))
    return specs


def text_of(spec):
    sym, i, pre, w, sp = spec
    if sym == "":
        return "[]"
    ids = "" if i is None else (f"0{i}" if sp == "lead0" else f"{i}")
    return f"[{sym}{ids}{WEIGHTS[w]}]"


def truth(a, b):
    if a[0] == "" or b[0] == "":
        return False
    if a[1] != b[1]:
        return False
    if ORDER[a[2]] != ORDER[b[2]]:
        return False
    return (a[0], b[0]) in (("$", "$"), ("<", ">"), (">", "<"))


def boundary(a, b):
    """compatible, or one single attribute change away from compatible."""
    if truth(a, b):
        return True
    if a[0] == "" or b[0] == "":
        # [] against a descriptor that would be compatible with something of the same id / order
        o = b if a[0] == "" else a
        return a[0] != b[0] and o[0] != ""
    diffs = 0
    diffs += a[1] != b[1]
    diffs += ORDER[a[2]] != ORDER[b[2]]
    diffs += (a[0], b[0]) not in (("$", "$"), ("<", ">"), (">", "<"))
    return diffs == 1


def build(specs):
    from gbigsmiles import BondDescriptor, SmilesToken, Stochastic

    A, B = [], []
    for spec in specs:
        txt = text_of(spec)
        pre = spec[2]
        A.append(BondDescriptor(txt, 0, pre, 0 if spec[0] else None))
        if spec[0] == "":
            # the empty descriptor only exists as a terminal of a stochastic object
            st = Stochastic("{[] [$]CC[$]; [$][H] []}", 0)
            B.append(st.right_terminal)
        else:
            tok = SmilesToken(f"C{pre}{txt}", 0, 0)
            if len(tok.bond_descriptors) != 1:
                raise RuntimeError(f"token C{pre}{txt} parsed into {len(tok.bond_descriptors)} descriptors")
            B.append(tok.bond_descriptors[0])
    return A, B


def plan(tier, seed):
    n = 16
    return [{"k": k, "n": n} for k in range(n)]


def run_shard(cfg):
    from gbigsmiles.core import get_compatible_bond_descriptor_ids

    acc = Acc()
    specs = universe(cfg["tier"])
    try:
        A, B = build(specs)
    except Exception as exc:  # the statement presupposes these descriptors exist
        acc.case("build")
        acc.violation("build", f"cannot construct the descriptor universe: {exc!r}", {"error": repr(exc)},
                      {"kind": "construct"})
        return acc
    N = len(specs)
    rows = range(cfg["k"], N, cfg["n"])
    for i in rows:
        a = specs[i]
        exp_row = [j for j in range(N) if truth(a, specs[j])]
        for route, objs in (("ctor", A), ("parsed", B)):
            oa = objs[i]
            for j in range(N):
                b = specs[j]
                exp = exp_row and truth(a, b)
                try:
                    got = bool(oa.is_compatible(objs[j]))
                    got_rev = bool(objs[j].is_compatible(oa))
                except Exception as exc:
                    acc.violation("raises", f"{text_of(a)} ~ {text_of(b)} raised {exc!r}",
                                  {"a": a, "b": b, "route": route}, {"kind": "raises", "route": route})
                    continue
                nt = boundary(a, b)
                acc.case((route, i, j) if nt else None)
                if got != bool(exp):
                    kind = "false_positive" if got else "false_negative"
                    acc.violation("truth_table", f"[{route}] {a[2]}{text_of(a)} ~ {b[2]}{text_of(b)}: implementation {got}, rule {bool(exp)}",
                                  {"a": a, "b": b, "route": route}, {"kind": kind})
                if got != got_rev:
                    acc.violation("symmetry", f"[{route}] {a[2]}{text_of(a)} ~ {b[2]}{text_of(b)} is {got} but reverse is {got_rev}",
                                  {"a": a, "b": b, "route": route}, {"kind": "asymmetric"})
            # mixed routes: constructor object against parsed object
        for j in range(N):
            try:
                g = bool(A[i].is_compatible(B[j]))
            except Exception as exc:
                acc.violation("raises", f"mixed {text_of(a)} ~ {text_of(specs[j])} raised {exc!r}",
                              {"a": a, "b": specs[j], "route": "mixed"}, {"kind": "raises", "route": "mixed"})
                continue
            acc.case(("mixed", i, j) if boundary(a, specs[j]) else None)
            if g != truth(a, specs[j]):
                acc.violation("truth_table", f"[mixed] {a[2]}{text_of(a)} ~ {specs[j][2]}{text_of(specs[j])}: implementation {g}",
                              {"a": a, "b": specs[j], "route": "mixed"}, {"kind": "false_positive" if g else "false_negative"})
        # candidate filter
        try:
            got_idx = [int(x) for x in get_compatible_bond_descriptor_ids(B, A[i])]
        except Exception as exc:
            acc.violation("raises", f"filter raised {exc!r} for {text_of(a)}", {"a": a, "route": "filter"},
                          {"kind": "raises", "route": "filter"})
            got_idx = None
        if got_idx is not None:
            acc.case(("filter", i))
            if got_idx != exp_row:
                extra = sorted(set(got_idx) - set(exp_row))[:3]
                missing = sorted(set(exp_row) - set(got_idx))[:3]
                acc.violation("filter", f"candidate filter for {a[2]}{text_of(a)}: surplus {[text_of(specs[k]) for k in extra]} "
                              f"missing {[text_of(specs[k]) for k in missing]}", {"a": a, "route": "filter"},
                              {"kind": "filter"})
        if i % 97 == 0:
            acc.sample({"a": a[2] + text_of(a), "compatible_with": [specs[j][2] + text_of(specs[j]) for j in exp_row[:4]],
                        "n_compatible": len(exp_row)})
    acc.extra["exhaustive"] = True
    acc.extra["universe_descriptors"] = N if cfg["k"] == 0 else 0
    return acc


def replay(case, rec):
    acc = Acc()
    a, b = tuple(case["a"]), tuple(case.get("b", case["a"]))
    a = (a[0], a[1], a[2], a[3], a[4]); b = (b[0], b[1], b[2], b[3], b[4])
    A, B = build([a, b])
    for route, objs in (("ctor", A), ("parsed", B)):
        got = bool(objs[0].is_compatible(objs[1])); rev = bool(objs[1].is_compatible(objs[0]))
        acc.case((route,))
        if got != truth(a, b):
            acc.violation("truth_table", f"[{route}] {text_of(a)} ~ {text_of(b)}: implementation {got}, rule {truth(a, b)}", case, {})
        if got != rev:
            acc.violation("symmetry", f"[{route}] asymmetric", case, {})
    return acc
