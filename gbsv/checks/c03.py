"""C03 - bond-descriptor compatibility is exactly the BigSMILES conjugation rule.

Finite universe, enumerated completely: every ordered pair of descriptors over
{[], $, <, >} x ids x bond-order prefixes x weight forms, each descriptor built three ways
(constructor, parsed inside a token / as a terminal, and queried through the candidate filter
get_compatible_bond_descriptor_ids).  Oracle: truth table written from the statement.
"""
import itertools

from ..acc import Acc

ID = "C03"
LEVEL = "exploration"
RULE = ("all ordered pairs of descriptors over {[],$,<,>} x ids x prefixes {none,-,=,#,:} x weight forms "
        "{none,scalar,list}, three construction routes each; a pair is non-trivial when it is compatible or differs "
        "from a compatible pair in exactly one of symbol / id / bond order / emptiness (the decision boundary); "
        "distinct = distinct ordered pair of descriptor specs")
ASSUMPTIONS = ["truth table written from the property statement; none and '-' are single bonds"]

ORDER = {"": 1.0, "-": 1.0, "=": 2.0, "#": 3.0, ":": 1.5}
WEIGHTS = {"none": "", "scalar": "|2.5|", "list": "|1 0 3.5|", "zero": "|0|"}


def universe(tier):
    ids = [None] + list(range(13))
    spell = {}
    if tier == "thorough":
        ids += list(range(13, 41)) + [99, 100, 120]
    specs = []
    for sym in "$<>":
        for i in ids:
            for pre in ORDER:
                for w in ("none", "scalar", "list"):
                    specs.append((sym, i, pre, w, ""))
    if tier == "thorough":  # other spellings of the same numeric id, and a zero weight
        for sym in "$<>":
            for i in (0, 5, 12):
                for pre in ("", "="):
                    specs.append((sym, i, pre, "none", "lead0"))
                    specs.append((sym, i, pre, "zero", ""))
    for pre in ORDER:
        specs.append(("", None, pre, "none", ""))
    return specs


def text_of(spec):
    sym, i, pre, w, sp = spec
    if sym == "":
        return "[]"
    ids = "" if i is None else (f"0{i}" if sp == "lead0" else f"{i}")
    return f"[{sym}{ids}{WEIGHTS[w]}]"


def truth(a, b):
    if a[0] == "" or b[0] == "":
        return False
    if a[1] != b[1]:
        return False
    if ORDER[a[2]] != ORDER[b[2]]:
        return False
    return (a[0], b[0]) in (("$", "$"), ("<", ">"), (">", "<"))


def boundary(a, b):
    """compatible, or one single attribute change away from compatible."""
    if truth(a, b):
        return True
    if a[0] == "" or b[0] == "":
        # [] against a descriptor that would be compatible with something of the same id / order
        o = b if a[0] == "" else a
        return a[0] != b[0] and o[0] != ""
    diffs = 0
    diffs += a[1] != b[1]
    diffs += ORDER[a[2]] != ORDER[b[2]]
    diffs += (a[0], b[0]) not in (("$", "$"), ("<", ">"), (">", "<"))
    return diffs == 1


def build(specs):
    from gbigsmiles import BondDescriptor, SmilesToken, Stochastic

    A, B = [], []
    for spec in specs:
        txt = text_of(spec)
        pre = spec[2]
        A.append(BondDescriptor(txt, 0, pre, 0 if spec[0] else None))
        if spec[0] == "":
            # the empty descriptor only exists as a terminal of a stochastic object
            st = Stochastic("{[] [$]CC[$]; [$][H] []}", 0)
            B.append(st.right_terminal)
        else:
            tok = SmilesToken(f"C{pre}{txt}", 0, 0)
            if len(tok.bond_descriptors) != 1:
                raise RuntimeError(f"token C{pre}{txt} parsed into {len(tok.bond_descriptors)} descriptors")
            B.append(tok.bond_descriptors[0])
    return A, B


def plan(tier, seed):
    n = 16
    return [{"k": k, "n": n} for k in range(n)]


def run_shard(cfg):
    from gbigsmiles.core import get_compatible_bond_descriptor_ids

    acc = Acc()
    specs = universe(cfg["tier"])
    try:
        A, B = build(specs)
    except Exception as exc:  # the statement presupposes these descriptors exist
        acc.case("build")
        acc.violation("build", f"cannot construct the descriptor universe: {exc!r}", {"error": repr(exc)},
                      {"kind": "construct"})
        return acc
    N = len(specs)
    rows = range(cfg["k"], N, cfg["n"])
    for i in rows:
        a = specs[i]
        exp_row = [j for j in range(N) if truth(a, specs[j])]
        for route, objs in (("ctor", A), ("parsed", B)):
            oa = objs[i]
            for j in range(N):
                b = specs[j]
                exp = exp_row and truth(a, b)
                try:
                    got = bool(oa.is_compatible(objs[j]))
                    got_rev = bool(objs[j].is_compatible(oa))
                except Exception as exc:
                    acc.violation("raises", f"{text_of(a)} ~ {text_of(b)} raised {exc!r}",
                                  {"a": a, "b": b, "route": route}, {"kind": "raises", "route": route})
                    continue
                nt = boundary(a, b)
                acc.case((route, i, j) if nt else None)
                if got != bool(exp):
                    kind = "false_positive" if got else "false_negative"
                    acc.violation("truth_table", f"[{route}] {a[2]}{text_of(a)} ~ {b[2]}{text_of(b)}: implementation {got}, rule {bool(exp)}",
                                  {"a": a, "b": b, "route": route}, {"kind": kind})
                if got != got_rev:
                    acc.violation("symmetry", f"[{route}] {a[2]}{text_of(a)} ~ {b[2]}{text_of(b)} is {got} but reverse is {got_rev}",
                                  {"a": a, "b": b, "route": route}, {"kind": "asymmetric"})
            # mixed routes: constructor object against parsed object
        for j in range(N):
            try:
                g = bool(A[i].is_compatible(B[j]))
            except Exception as exc:
                acc.violation("raises", f"mixed {text_of(a)} ~ {text_of(specs[j])} raised {exc!r}",
                              {"a": a, "b": specs[j], "route": "mixed"}, {"kind": "raises", "route": "mixed"})
                continue
            acc.case(("mixed", i, j) if boundary(a, specs[j]) else None)
            if g != truth(a, specs[j]):
                acc.violation("truth_table", f"[mixed] {a[2]}{text_of(a)} ~ {specs[j][2]}{text_of(specs[j])}: implementation {g}",
                              {"a": a, "b": specs[j], "route": "mixed"}, {"kind": "false_positive" if g else "false_negative"})
        # candidate filter
        try:
            got_idx = [int(x) for x in get_compatible_bond_descriptor_ids(B, A[i])]
        except Exception as exc:
            acc.violation("raises", f"filter raised {exc!r} for {text_of(a)}", {"a": a, "route": "filter"},
                          {"kind": "raises", "route": "filter"})
            got_idx = None
        if got_idx is not None:
            acc.case(("filter", i))
            if got_idx != exp_row:
                extra = sorted(set(got_idx) - set(exp_row))[:3]
                missing = sorted(set(exp_row) - set(got_idx))[:3]
                acc.violation("filter", f"candidate filter for {a[2]}{text_of(a)}: surplus {[text_of(specs[k]) for k in extra]} "
                              f"missing {[text_of(specs[k]) for k in missing]}", {"a": a, "route": "filter"},
                              {"kind": "filter"})
        if i % 97 == 0:
            acc.sample({"a": a[2] + text_of(a), "compatible_with": [specs[j][2] + text_of(specs[j]) for j in exp_row[:4]],
                        "n_compatible": len(exp_row)})
    acc.extra["exhaustive"] = True
    acc.extra["universe_descriptors"] = N if cfg["k"] == 0 else 0
    _objects_part(acc, cfg)
    return acc


def _objects_part(acc, cfg):
    """Weights never influence compatibility - also not list weights with zeros at the partner's position, and not
    the position (descriptor number) a descriptor has inside its stochastic object.  Generated stochastic objects
    with 2-7 single-descriptor tokens; every ordered pair of their descriptors (and terminals) against the rule."""
    from hypothesis import strategies as st
    from gbigsmiles import BondDescriptor, Stochastic
    from ..hyp import drive

    n_cases = 400 if cfg["tier"] == "thorough" else 60

    @st.composite
    def obj(draw):
        n = draw(st.integers(2, 7))
        specs = []
        for k in range(n):
            sym = draw(st.sampled_from("$<>"))
            did = draw(st.sampled_from([None, None, 1, 2]))
            pre = draw(st.sampled_from(["", "", "=", "#"]))
            form = draw(st.sampled_from(["none", "scalar", "list", "list", "zero"]))
            if form == "list":
                lst = [draw(st.sampled_from([0, 0, 1, 2, 0.5])) for _ in range(n)]
                if sum(lst) == 0:
                    lst[draw(st.integers(0, n - 1))] = 1
                w = "|" + " ".join(str(x) for x in lst) + "|"
            else:
                w = {"none": "", "scalar": "|" + str(draw(st.sampled_from([2, 0.5, 7.25]))) + "|", "zero": "|0|"}[form]
            specs.append((sym, did, pre, w))
        lt = draw(st.sampled_from(["", "$", "<", ">"]))
        rt = draw(st.sampled_from(["", "$", "<", ">"]))
        return specs, lt, rt

    def t(sym, did, pre, w):
        return (sym, did, pre, "none", "")

    def run(x):
        specs, lt, rt = x
        toks = ", ".join(f"C{pre}[{sym}{'' if did is None else did}{w}]" for sym, did, pre, w in specs)
        text = "{[" + lt + "] " + toks + " [" + rt + "]}"
        try:
            so = Stochastic(text, 0)
            objs = list(so.bond_descriptors) + [so.left_terminal, so.right_terminal]
            # the same descriptors through the constructor with their position in the object
            ctor = [BondDescriptor(f"[{sym}{'' if did is None else did}{w}]", k, pre, 0) for k, (sym, did, pre, w) in enumerate(specs)]
        except Exception as exc:  # noqa: BLE001
            acc.case(("obj", text))
            acc.violation("build", f"cannot parse {text!r}: {exc!r}", {"text": text}, {"kind": "construct_object"})
            return
        ref = [t(*sp) for sp in specs] + [(lt, None, "", "none", ""), (rt, None, "", "none", "")]
        if len(objs) != len(ref):
            acc.violation("build", f"{text!r}: {len(objs)} descriptors parsed, {len(ref)} written", {"text": text}, {"kind": "construct_object"})
            return
        for route, pool in (("object", objs), ("ctor_numbered", ctor)):
            for i, a in enumerate(pool):
                for j, b in enumerate(pool):
                    exp = truth(ref[i], ref[j])
                    got = bool(a.is_compatible(b))
                    acc.case((route, text, i, j) if boundary(ref[i], ref[j]) else None)
                    if got != exp:
                        acc.violation("truth_table_weighted", f"[{route}] in {text!r}: descriptor {i} ~ descriptor {j}: implementation {got}, rule {exp}",
                                      {"text": text, "i": i, "j": j, "route": route}, {"kind": "false_positive" if got else "false_negative"},
                                      size=len(text))
        if acc.evaluations % 7 == 0:
            acc.sample({"object": text})

    drive(obj(), run, max(4, n_cases // cfg["n"]), cfg["seed"])


def replay(case, rec):
    acc = Acc()
    if "text" in case:
        from gbigsmiles import Stochastic
        import re
        so = Stochastic(case["text"], 0)
        objs = list(so.bond_descriptors) + [so.left_terminal, so.right_terminal]
        a, b = objs[case["i"]], objs[case["j"]]

        def spec(o):
            bt = str(o.bond_type).split(".")[-1]
            pre = {"SINGLE": "", "DOUBLE": "=", "TRIPLE": "#", "ONEANDAHALF": ":"}.get(bt, "")
            return (o.descriptor, None if o.descriptor_id == "" else int(o.descriptor_id), pre, "none", "")
        # the rule on symbol / id / order as *written* (orders are re-read from the text to stay independent)
        toks = re.findall(r"C([=#]?)\[([$<>])(\d*)", case["text"])
        lt, rt = re.match(r"\{\[([$<>]?)\]", case["text"]).group(1), re.search(r"\[([$<>]?)\]\}$", case["text"]).group(1)
        ref = [(s_, int(d) if d else None, p_, "none", "") for p_, s_, d in toks] + [(lt, None, "", "none", ""), (rt, None, "", "none", "")]
        acc.case(("replay",))
        got = bool(a.is_compatible(b))
        exp = truth(ref[case["i"]], ref[case["j"]])
        if got != exp:
            acc.violation("truth_table_weighted", f"in {case['text']!r}: descriptor {case['i']} ~ {case['j']}: implementation {got}, rule {exp}", case, {})
        return acc
    a, b = tuple(case["a"]), tuple(case.get("b", case["a"]))
    a = (a[0], a[1], a[2], a[3], a[4]); b = (b[0], b[1], b[2], b[3], b[4])
    A, B = build([a, b])
    for route, objs in (("ctor", A), ("parsed", B)):
        got = bool(objs[0].is_compatible(objs[1])); rev = bool(objs[1].is_compatible(objs[0]))
        acc.case((route,))
        if got != truth(a, b):
            acc.violation("truth_table", f"[{route}] {text_of(a)} ~ {text_of(b)}: implementation {got}, rule {truth(a, b)}", case, {})
        if got != rev:
            acc.violation("symmetry", f"[{route}] asymmetric", case, {})
    return acc
