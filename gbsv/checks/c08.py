"""C08 - every random decision follows the weights written in the notation.

Tier A (deciding, bounded instances): the scripted generator enumerates EVERY sequence of random choices of the
real generator; P_impl(molecule) = sum over paths of the product of the probabilities handed to rng.choice.
Oracle: the exact outcome distribution computed from the notation by the reference enumerator (gbsv/reflaw.py).
Every probability vector handed to the generator interface must be a probability vector.
Tier C (backstop, larger instances): long-run frequency of the first repeat unit / end group against the reference law.
"""
import math

import numpy as np
from hypothesis import strategies as st

from .. import gen, probe, reflaw, refchem
from ..acc import Acc
from ..ast import Mol, Stoch
from ..hyp import drive
from ..strategies import molecules
from .gencheck import targets_for

ID = "C08"
LEVEL = "exploration"
RULE = ("bounded instances (<=2 blocks, targets <= 1.5 units, tokens <= 3 atoms) of every archetype with weights from {0, equal, "
        "distinct, lists with zeros}; all choice sequences of the real generator are enumerated depth-first with a scripted "
        "numpy Generator and compared with the exact outcome law computed from the notation; non-trivial = instance in which "
        "some decision has >=2 options of unequal positive probability; distinct = (molecule string, targets)")
ASSUMPTIONS = ["the reference law is DESIGN.md §0 (written from README 'Notation of details' and the property statement)",
               "molecules are identified by RDKit canonical SMILES",
               "targets are forced (zero-width) so that only `choice` consumes randomness; ties within 1e-9 are skipped"]

SIZES = {"quick": {"instances": 640, "max_paths": 300}, "thorough": {"instances": 12000, "max_paths": 2000}}
SOFT_DEADLINE = {"quick": 80.0, "thorough": 1000.0}
TOL = 1e-9


def plan(tier, seed):
    return [{} for _ in range(16)]


@st.composite
def inst_case(draw):
    k = draw(st.integers(0, 5))
    if k == 0:    # hand-overs between two objects / through connectors, symmetric family (both connector descriptors admissible)
        m = draw(molecules(max_blocks=2, min_blocks=2, max_atoms=3, small=True, plain_ok=False, fam="$"))
    elif k == 1:  # hand-overs, directed family, lists in front
        m = draw(molecules(max_blocks=2, min_blocks=2, max_atoms=3, small=True, plain_ok=False, lists=True))
    else:
        m = draw(molecules(max_blocks=2, max_atoms=3, small=True, plain_ok=False))
    fr = [(draw(st.integers(0, 1)), draw(st.sampled_from([-0.5, 0.5, 0.25, 1e-7])), draw(st.integers(0, 3)), 1) for _ in range(3)]
    return m, fr


def enumerate_impl(parsed, targets, max_paths):
    """(dict smiles->prob, npaths, complete, interesting, problems)"""
    out, probs = {}, []
    npaths, interesting = 0, False
    stack = [[]]
    complete = True
    while stack:
        script = stack.pop()
        rng = probe.ScriptedRNG(script)
        try:
            gres = gen.generate(parsed, rng, targets)
        except probe.NeedChoice as need:
            pos = [p for p in need.p if p > 0]
            if len(pos) >= 2 and max(pos) - min(pos) > 1e-12:
                interesting = True
            for k in reversed(range(len(need.p))):
                if need.p[k] > 0:
                    stack.append(script + [k])
            continue
        npaths += 1
        if rng.native_used:
            # the generator drew from a primitive the scripted stream cannot steer: the choice protocol is not observable
            return None, npaths, False, False, [("not_observable", sorted(set(rng.native_used)), script)]
        if rng.bad_p:
            probs.append(("probability_vector", f"rng.choice was handed p={rng.bad_p[0]} (script {script})", script))
        elif gres.status == "raise":
            probs.append(("path_raises", f"choice script {script} (probability {rng.prob:.6g}) raised {gres.exc!r}", script))
        elif gres.status == "ok":
            try:
                key = refchem.canon(gres.molgen.mol)
            except Exception as exc:  # noqa: BLE001
                probs.append(("path_raises", f"choice script {script}: molecule does not sanitise: {exc!r}", script))
                key = None
            if key is not None:
                out[key] = out.get(key, 0.0) + rng.prob
        if npaths >= max_paths:
            complete = not stack
            break
    return out, npaths, complete, interesting, probs


def compare(acc, m, targets, ref, impl, complete, case, sig):
    text = m.text(False)
    if complete:
        tot = sum(impl.values())
        if abs(tot - 1.0) > 1e-9:
            acc.violation("total_probability", f"path probabilities of {text!r} sum to {tot!r}", case, sig, size=len(text))
        for k in sorted(set(ref) | set(impl)):
            a, b = impl.get(k, 0.0), ref.get(k, 0.0)
            if abs(a - b) > TOL:
                kind = "never_produced" if a == 0 else ("not_in_reference_support" if b == 0 else "probability")
                acc.violation("outcome_law", f"{text!r} targets {targets}: molecule {k} has probability {a:.12g} in the implementation, "
                              f"{b:.12g} from the notation", case, {**sig, "kind": kind}, size=len(text))
                return
    else:
        for k, a in impl.items():
            b = ref.get(k, 0.0)
            if a > b + TOL:
                acc.violation("outcome_law", f"{text!r} targets {targets}: molecule {k} already has probability {a:.12g} on the explored paths, "
                              f"the notation gives {b:.12g}", case, {**sig, "kind": "probability_partial"}, size=len(text))
                return


def one_instance(acc, m, fr, max_paths):
    text = m.text(False)
    ok, why = reflaw.well_posed(m)
    if not ok:
        acc.count("rejected_by_closability_analysis")
        return
    targets = targets_for(m, fr)
    try:
        ref, nref = reflaw.enumerate_outcomes(m, targets, max_paths=4 * max_paths)
    except ValueError:
        acc.count("tie_skipped")
        return
    except OverflowError:
        acc.count("reference_too_large_skipped")
        return
    except reflaw.IllPosed as exc:
        acc.count("reference_ill_posed_skipped")
        return
    status, parsed = gen.parse_mol(m)
    if status != "ok" or not parsed.tok_index:
        acc.count("parse_problem_dropped")
        return
    impl, npaths, complete, interesting, probs = enumerate_impl(parsed, targets, max_paths)
    if impl is None:
        acc.case(None, labels=["tierA:choice_protocol_not_observable"])
        acc.count("tier_a_not_observable(Tier C stands in)")
        return
    case = {"text": text, "ast": m.to_json(), "fr": [list(x) for x in fr], "targets": targets}
    sig = {}
    acc.case((text, tuple(targets)) if interesting else None,
             labels=["arche:" + a for a in m.arche.split("+")] + [f"complete:{complete}", f"outcomes:{min(len(ref), 20)}"])
    acc.count("paths_enumerated", npaths)
    acc.count("reference_paths", nref)
    for code, msg, script in probs[:1]:
        acc.violation(code, f"{msg}\n molecule {text!r} targets {targets}", {**case, "script": script}, sig, size=len(text))
    compare(acc, m, targets, ref, impl, complete, case, sig)
    if acc.evaluations % 13 == 0:
        top = sorted(ref.items(), key=lambda kv: -kv[1])[:3]
        acc.sample({"molecule": text, "targets": targets, "paths": npaths, "complete": complete,
                    "outcomes": len(ref), "most_likely": [(k, round(v, 6)) for k, v in top]})


# ------------------------------------------------------------------------------------------------ Tier B
def tier_b(acc, m, seed, fr):
    """Every decision of a random run on a larger instance: the probability vector handed to rng.choice inside
    choose_compatible_weight must be the reference law on exactly the descriptors it was given, the pool must be the one
    the statement names for that kind of decision (repeat units when growing, end groups when capping / starting), and
    a listed descriptor must be followed by a choice with its normalised list."""
    import sys
    import gbigsmiles.core as core
    import gbigsmiles.stochastic as gs
    import gbigsmiles.token as gt
    from ..parsecmp import bd_facts

    text = m.text(False)
    ok, why = reflaw.well_posed(m)
    if not ok:
        return
    status, parsed = gen.parse_mol(m)
    if status != "ok" or not parsed.tok_index:
        return
    # identity of the token-owned descriptors
    role = {}
    toks = m.tokens
    owner = []
    for ei, e in enumerate(m.elements):
        if isinstance(e, Stoch):
            owner += [(ei, "repeat")] * len(e.repeat) + [(ei, "end")] * len(e.end)
        else:
            owner.append((ei, "tok"))
    for t_i, r in enumerate(parsed.obj.residues):
        for bd in r.bond_descriptors:
            role[id(bd)] = owner[t_i]
    rng = probe.RecordingRNG(seed)
    calls = []
    orig = core.choose_compatible_weight

    def tap(bond_descriptors, bond, rng_):
        n0 = len(rng.log)
        try:
            caller = sys._getframe(1).f_code.co_name.lstrip("_")
        except Exception:  # noqa: BLE001
            caller = "?"
        facts = [bd_facts(b) for b in bond_descriptors]
        roles = [role.get(id(b)) for b in bond_descriptors]
        bf = None if bond is None else bd_facts(bond)
        idx = orig(bond_descriptors, bond, rng_)
        entry = rng.log[n0] if len(rng.log) == n0 + 1 else None
        calls.append({"caller": caller, "facts": facts, "roles": roles, "bond": bf, "idx": int(idx), "entry": entry,
                      "chosen_list": facts[int(idx)]["transitions"] if bond is None else None, "log_pos": n0})
        return idx

    saved = [(mod_, mod_.choose_compatible_weight) for mod_ in (gs, gt) if hasattr(mod_, "choose_compatible_weight")]
    if not saved:
        acc.count("tier_b_not_observable")  # the decision function is no longer reachable under its public name: no verdict
        return
    for mod_, _f in saved:
        mod_.choose_compatible_weight = tap
    try:
        targets = targets_for(m, fr)
        gres = gen.generate(parsed, rng, targets)
    finally:
        for mod, f in saved:
            mod.choose_compatible_weight = f
    if gres.status != "ok" or not calls:
        acc.count("tier_b_generation_dropped")
        return
    case = {"text": text, "ast": m.to_json(), "seed": seed, "fr": [list(x) for x in fr], "tier": "B"}
    acc.case((text, seed) if len(calls) >= 6 else None, labels=["tierB", f"decisions:{min(len(calls) // 10 * 10, 100)}"])
    acc.count("tier_b_decisions", len(calls))

    def compat(a, b):
        return (a["symbol"] and b["symbol"] and a["id"] == b["id"] and a["order"] == b["order"]
                and (a["symbol"], b["symbol"]) in (("$", "$"), ("<", ">"), (">", "<")))

    for k, c in enumerate(calls):
        if c["entry"] is None:
            acc.count("tier_b_not_observable")
            continue
        opts, p, res = c["entry"]
        cand = [i for i, f in enumerate(c["facts"]) if c["bond"] is None or compat(c["bond"], f)]
        # how the options are labelled at the generator interface (descriptor indices, positions 0..n-1, ...) is the library's
        # business; what the statement fixes is *how many* candidates there are and with which probabilities they are offered
        if len(opts) != len(cand) or c["idx"] not in cand:
            acc.violation("decision_candidates", f"{text!r}: decision {k} ({c['caller']}): {len(opts)} candidates offered (descriptor {c['idx']} taken) but the "
                          f"compatible descriptors are {cand}", case, {"caller": c["caller"]}, size=len(text))
            return
        ref = reflaw.normalise([c["facts"][i]["weight"] for i in cand])
        if p is None or len(p) != len(ref) or any(abs(a - b) > 1e-12 for a, b in zip(p, ref)):
            acc.violation("decision_law", f"{text!r}: decision {k} ({c['caller']}): weights {[c['facts'][i]['weight'] for i in cand]} were turned into "
                          f"p={p}, the notation gives {ref}", case, {"caller": c["caller"]}, size=len(text))
            return
        if ref[cand.index(c["idx"])] <= 0:
            acc.violation("zero_probability_taken", f"{text!r}: decision {k}: option with probability 0 taken", case, {}, size=len(text))
            return
        # pool of the decision
        if c["bond"] is not None and c["caller"] in ("add_repeat_unit", "finalize_mol") and all(r is not None for r in c["roles"]):
            kinds = {r[1] for r in c["roles"]}
            want = {"repeat"} if c["caller"] == "add_repeat_unit" else {"end"}
            if c["caller"] == "finalize_mol" and any(r is None for r in c["roles"]):
                pass
            elif kinds and kinds != want:
                acc.violation("decision_pool", f"{text!r}: decision {k} in {c['caller']} picks among {sorted(kinds)} descriptors, the statement says {sorted(want)}", case,
                              {"caller": c["caller"]}, size=len(text))
                return
        # a listed open descriptor must be followed by a choice with exactly its normalised list
        if c["bond"] is None and c["caller"] == "add_repeat_unit" and c["chosen_list"] is not None:
            if any(pos == c["log_pos"] + 1 for pos, _name in rng.native_log):
                # another random primitive was used right after this decision: the listed pick may have been drawn that way
                acc.count("decision_list_not_observable(Tier A / Tier C decide)")
                continue
            nxt = rng.log[c["log_pos"] + 1] if len(rng.log) > c["log_pos"] + 1 else None
            lst = c["chosen_list"]
            tot = sum(lst)
            want = [x / tot for x in lst]
            if nxt is None or nxt[1] is None or len(nxt[1]) != len(want) or any(abs(a - b) > 1e-12 for a, b in zip(nxt[1], want)):
                acc.violation("decision_list", f"{text!r}: decision {k}: open descriptor carries the list {lst}, the following choice used p={None if nxt is None else nxt[1]}", case,
                              {}, size=len(text))
                return


# ------------------------------------------------------------------------------------------------ Tier C
UNITS_C = [("CC", 24.022), ("CO", 28.01), ("C(F)C", 43.02)]
ENDS_C = ["Cl", "Br"]


@st.composite
def freq_case(draw):
    ws = draw(st.lists(st.sampled_from([1.0, 2.0, 3.0, 5.0, 8.0, 0.5]), min_size=3, max_size=3, unique=True))
    es = draw(st.lists(st.sampled_from([1.0, 2.0, 4.0, 7.0]), min_size=2, max_size=2, unique=True))
    lists = None
    if draw(st.booleans()):
        lists = [[float(draw(st.sampled_from([0, 1, 2, 5]))) for _ in range(3)] for _ in range(3)]
        for row in lists:
            if sum(row) == 0:
                row[draw(st.integers(0, 2))] = 1.0
    return ws, es, lists, draw(st.integers(0, 2**31 - 1))


def tier_c(acc, ws, es, lists, seed, n):
    """long-run frequencies of observable decisions of a mid-size instance: the repeat unit at positions 1-3 of the chain and
    the capping end group, against the law written in the notation (exact binomial, alpha 1e-10, re-confirmed)"""
    import gbigsmiles
    from .. import stats as gst

    parts = []
    for j, ((u, _), w) in enumerate(zip(UNITS_C, ws)):
        lst = ""
        if lists is not None:
            row = lists[j]
            lst = "|" + " ".join(repr(x) for x in (row[0], 0.0, row[1], 0.0, row[2], 0.0, 0.0, 0.0)) + "|"
        parts.append(f"[<|{w!r}|]{u}[>{lst}]")
    T = 3.2 * max(mu for _, mu in UNITS_C)
    text = "N{[>] " + ", ".join(parts) + " ; " + ", ".join(f"[<|{e!r}|]{g}" for e, g in zip(es, ENDS_C)) + " []}|gauss(" + repr(T) + ", 0)|"
    case = {"text": text, "tier": "C", "ws": ws, "es": es, "lists": lists, "seed": seed}
    status, obj = probe.guarded(gbigsmiles.Molecule, text)
    if status != "ok":
        acc.count("tier_c_parse_dropped")
        return
    res = list(obj.residues)
    if len(res) != 6:
        acc.count("tier_c_residues_dropped")
        return
    idx = {id(r): k for k, r in enumerate(res)}
    p1 = [w / sum(ws) for w in ws]
    if lists is None:
        ps = [p1, p1, p1]
    else:
        M = [[x / sum(row) for x in row] for row in lists]
        p2 = [sum(p1[i] * M[i][j] for i in range(3)) for j in range(3)]
        p3 = [sum(p2[i] * M[i][j] for i in range(3)) for j in range(3)]
        ps = [p1, p2, p3]
    pe = [e / sum(es) for e in es]

    def sample(seed_, n_):
        cnt = [[0, 0, 0] for _ in range(3)]
        ce = [0, 0]
        ok = 0
        rng = probe.CountingRNG(seed_)
        with probe.tag_residues(idx):
            for _ in range(n_):
                st_, mg = probe.guarded(lambda: obj.generate(rng=rng), seconds=60)
                if st_ != "ok":
                    continue
                tags = [mg.graph.nodes[k].get("gbsv_tok", -1) for k in sorted(mg.graph.nodes())]
                if len(tags) < 6 or tags[0] != 0 or any(t not in (1, 2, 3) for t in tags[1:4]) or tags[-1] not in (4, 5):
                    continue
                ok += 1
                for pos in range(3):
                    cnt[pos][tags[1 + pos] - 1] += 1
                ce[tags[-1] - 4] += 1
        return cnt, ce, ok

    def rejected(cnt, ce, ok):
        out = []
        alpha = 1e-10 / 11.0
        for pos in range(3):
            for j in range(3):
                if gst.binom_tail(cnt[pos][j], ok, ps[pos][j]) < alpha:
                    out.append((f"repeat unit {UNITS_C[j][0]} at chain position {pos + 1}", cnt[pos][j], ps[pos][j]))
        for j in range(2):
            if gst.binom_tail(ce[j], ok, pe[j]) < alpha:
                out.append((f"end group {ENDS_C[j]} at the capped end", ce[j], pe[j]))
        return out

    cnt, ce, ok = sample(seed, n)
    acc.case((text, "C") if ok >= n // 2 else None, labels=["tierC", f"tierC_lists:{lists is not None}"])
    acc.count("tier_c_generations", ok)
    if ok < n // 2:
        acc.count("tier_c_not_observable")  # creation order / tags not as expected: no verdict
        return
    bad = rejected(cnt, ce, ok)
    if bad:
        cnt2, ce2, ok2 = sample(seed + 7919, 2 * n)
        bad2 = rejected(cnt2, ce2, ok2) if ok2 >= n else []
        again = [b for b in bad if any(b[0] == c[0] for c in bad2)]
        if again:
            what, k, p = again[0]
            acc.violation("frequency", f"{text!r}: {what}: {k} of {ok} generations, the notation gives probability {p:.4f} (confirmed with a second seed and "
                          f"{ok2} generations)", case, {"lists": lists is not None}, size=len(text))
        else:
            acc.count("tier_c_rejection_not_confirmed")
    if len(acc.samples) < 14:
        acc.sample({"tier": "C", "molecule": text, "generations": ok, "unit_at_position_1": cnt[0], "expected": [round(x * ok, 1) for x in ps[0]],
                    "end_groups": ce, "expected_end_groups": [round(x * ok, 1) for x in pe]})


def run_shard(cfg):
    import time
    acc = Acc()
    sz = SIZES[cfg["tier"]]
    n = max(1, sz["instances"] // cfg["nshards"])
    t_start = time.time()
    t_end = t_start + SOFT_DEADLINE[cfg["tier"]] * (1.0 if cfg["tier"] == "quick" else 0.6)  # Tier A's share
    t_end_b = t_start + SOFT_DEADLINE[cfg["tier"]] + (25 if cfg["tier"] == "quick" else 0)     # Tier B until here

    def f(x):
        m, fr = x
        if time.time() > t_end:
            acc.count("instances_skipped_after_soft_deadline")
            return
        one_instance(acc, m, fr, sz["max_paths"])
    drive(inst_case(), f, n, cfg["seed"])

    # Tier B: every decision of random runs on larger instances
    @st.composite
    def big_case(draw):
        m = draw(molecules(max_blocks=2, max_atoms=4, small=False))
        fr = [(draw(st.integers(2, 9)), draw(st.sampled_from([0.5, 0.25])), draw(st.integers(0, 3)), 1) for _ in range(3)]
        return m, draw(st.integers(0, 2**31 - 1)), fr

    def g(x):
        if time.time() > t_end_b:
            acc.count("tier_b_skipped_after_soft_deadline")
            return
        tier_b(acc, x[0], x[1], x[2])
    drive(big_case(), g, max(4, n // 2), cfg["seed"] + 11)

    # Tier C: long-run frequencies (backstop; stands in when the choice protocol is not observable)
    nc = 300 if cfg["tier"] == "quick" else 3000
    drive(freq_case(), lambda x: tier_c(acc, x[0], x[1], x[2], x[3], nc), 3 if cfg["tier"] == "quick" else 8, cfg["seed"] + 23)
    return acc


def shrink_candidates(case):
    """smaller molecules of the same kind (fewer units / end groups, lists and weights removed), still inside the domain"""
    if case.get("tier") == "C":
        return
    from ..shrink import mol_candidates
    for ast, text in mol_candidates(case["ast"]):
        yield {**case, "ast": ast, "text": text}


def replay(case, rec):
    acc = Acc()
    m = Mol.from_json(case["ast"])
    if case.get("tier") == "C":
        tier_c(acc, case["ws"], case["es"], case["lists"], case["seed"], 600)
        return acc
    if case.get("tier") == "B":
        tier_b(acc, m, case["seed"], [tuple(x) for x in case["fr"]])
        return acc
    one_instance(acc, m, [tuple(x) for x in case["fr"]], 20000)
    return acc
