"""C08 - every random decision follows the weights written in the notation.

Tier A (deciding, bounded instances): the scripted generator enumerates EVERY sequence of random choices of the
real generator; P_impl(molecule) = sum over paths of the product of the probabilities handed to rng.choice.
Oracle: the exact outcome distribution computed from the notation by the reference enumerator (gbsv/reflaw.py).
Every probability vector handed to the generator interface must be a probability vector.
Tier C (backstop, larger instances): long-run frequency of the first repeat unit / end group against the reference law.
"""
import math

import numpy as np
from hypothesis import strategies as st

from .. import gen, probe, reflaw, refchem
from ..acc import Acc
from ..ast import Mol, Stoch
from ..hyp import drive
from ..strategies import molecules
from .gencheck import targets_for

ID = "C08"
LEVEL = "exploration"
RULE = ("bounded instances (<=2 blocks, targets <= 1.5 units, tokens <= 3 atoms) of every archetype with weights from {0, equal, "
        "distinct, lists with zeros}; all choice sequences of the real generator are enumerated depth-first with a scripted "
        "numpy Generator and compared with the exact outcome law computed from the notation; non-trivial = instance in which "
        "some decision has >=2 options of unequal positive probability; distinct = (molecule string, targets)")
ASSUMPTIONS = ["the reference law is DESIGN.md §0 (written from README 'Notation of details' and the property statement)",
               "molecules are identified by RDKit canonical SMILES",
               "targets are forced (zero-width) so that only `choice` consumes randomness; ties within 1e-9 are skipped"]

SIZES = {"quick": {"instances": 640, "max_paths": 300}, "thorough": {"instances": 12000, "max_paths": 6000}}
SOFT_DEADLINE = {"quick": 80.0, "thorough": 2400.0}
TOL = 1e-9


def plan(tier, seed):
    return [{} for _ in range(16)]


@st.composite
def inst_case(draw):
    k = draw(st.integers(0, 5))
    if k == 0:    # hand-overs between two objects / through connectors, symmetric family (both connector descriptors admissible)
        m = draw(molecules(max_blocks=2, min_blocks=2, max_atoms=3, small=True, plain_ok=False, fam="$"))
    elif k == 1:  # hand-overs, directed family, lists in front
        m = draw(molecules(max_blocks=2, min_blocks=2, max_atoms=3, small=True, plain_ok=False, lists=True))
    else:
        m = draw(molecules(max_blocks=2, max_atoms=3, small=True, plain_ok=False))
    fr = [(draw(st.integers(0, 1)), draw(st.sampled_from([-0.5, 0.5, 0.25, 1e-7])), draw(st.integers(0, 3)), 1) for _ in range(3)]
    return m, fr


def enumerate_impl(parsed, targets, max_paths):
    """(dict smiles->prob, npaths, complete, interesting, problems)"""
    out, probs = {}, []
    npaths, interesting = 0, False
    stack = [[]]
    complete = True
    while stack:
        script = stack.pop()
        rng = probe.ScriptedRNG(script)
        try:
            gres = gen.generate(parsed, rng, targets)
        except probe.NeedChoice as need:
            pos = [p for p in need.p if p > 0]
            if len(pos) >= 2 and max(pos) - min(pos) > 1e-12:
                interesting = True
            for k in reversed(range(len(need.p))):
                if need.p[k] > 0:
                    stack.append(script + [k])
            continue
        npaths += 1
        if rng.bad_p:
            probs.append(("probability_vector", f"rng.choice was handed p={rng.bad_p[0]} (script {script})", script))
        elif gres.status == "raise":
            probs.append(("path_raises", f"choice script {script} (probability {rng.prob:.6g}) raised {gres.exc!r}", script))
        elif gres.status == "ok":
            try:
                key = refchem.canon(gres.molgen.mol)
            except Exception as exc:  # noqa: BLE001
                probs.append(("path_raises", f"choice script {script}: molecule does not sanitise: {exc!r}", script))
                key = None
            if key is not None:
                out[key] = out.get(key, 0.0) + rng.prob
        if npaths >= max_paths:
            complete = not stack
            break
    return out, npaths, complete, interesting, probs


def compare(acc, m, targets, ref, impl, complete, case, sig):
    text = m.text(False)
    if complete:
        tot = sum(impl.values())
        if abs(tot - 1.0) > 1e-9:
            acc.violation("total_probability", f"path probabilities of {text!r} sum to {tot!r}", case, sig, size=len(text))
        for k in sorted(set(ref) | set(impl)):
            a, b = impl.get(k, 0.0), ref.get(k, 0.0)
            if abs(a - b) > TOL:
                kind = "never_produced" if a == 0 else ("not_in_reference_support" if b == 0 else "probability")
                acc.violation("outcome_law", f"{text!r} targets {targets}: molecule {k} has probability {a:.12g} in the implementation, "
                              f"{b:.12g} from the notation", case, {**sig, "kind": kind}, size=len(text))
                return
    else:
        for k, a in impl.items():
            b = ref.get(k, 0.0)
            if a > b + TOL:
                acc.violation("outcome_law", f"{text!r} targets {targets}: molecule {k} already has probability {a:.12g} on the explored paths, "
                              f"the notation gives {b:.12g}", case, {**sig, "kind": "probability_partial"}, size=len(text))
                return


def one_instance(acc, m, fr, max_paths):
    text = m.text(False)
    ok, why = reflaw.well_posed(m)
    if not ok:
        acc.count("rejected_by_closability_analysis")
        return
    targets = targets_for(m, fr)
    try:
        ref, nref = reflaw.enumerate_outcomes(m, targets, max_paths=4 * max_paths)
    except ValueError:
        acc.count("tie_skipped")
        return
    except OverflowError:
        acc.count("reference_too_large_skipped")
        return
    except reflaw.IllPosed as exc:
        acc.count("reference_ill_posed_skipped")
        return
    status, parsed = gen.parse_mol(m)
    if status != "ok" or not parsed.tok_index:
        acc.count("parse_problem_dropped")
        return
    impl, npaths, complete, interesting, probs = enumerate_impl(parsed, targets, max_paths)
    case = {"text": text, "ast": m.to_json(), "fr": [list(x) for x in fr], "targets": targets}
    sig = {}
    acc.case((text, tuple(targets)) if interesting else None,
             labels=["arche:" + a for a in m.arche.split("+")] + [f"complete:{complete}", f"outcomes:{min(len(ref), 20)}"])
    acc.count("paths_enumerated", npaths)
    acc.count("reference_paths", nref)
    for code, msg, script in probs[:1]:
        acc.violation(code, f"{msg}\n molecule {text!r} targets {targets}", {**case, "script": script}, sig, size=len(text))
    compare(acc, m, targets, ref, impl, complete, case, sig)
    if acc.evaluations % 13 == 0:
        top = sorted(ref.items(), key=lambda kv: -kv[1])[:3]
        acc.sample({"molecule": text, "targets": targets, "paths": npaths, "complete": complete,
                    "outcomes": len(ref), "most_likely": [(k, round(v, 6)) for k, v in top]})


def run_shard(cfg):
    import time
    acc = Acc()
    sz = SIZES[cfg["tier"]]
    n = max(1, sz["instances"] // cfg["nshards"])
    t_end = time.time() + SOFT_DEADLINE[cfg["tier"]]

    def f(x):
        m, fr = x
        if time.time() > t_end:
            acc.count("instances_skipped_after_soft_deadline")
            return
        one_instance(acc, m, fr, sz["max_paths"])
    drive(inst_case(), f, n, cfg["seed"])
    return acc


def replay(case, rec):
    acc = Acc()
    m = Mol.from_json(case["ast"])
    one_instance(acc, m, [tuple(x) for x in case["fr"]], 20000)
    return acc
