"""C14 - generated ensembles have the declared composition by mass.

Domain: systems of 2-4 components of fixed molecular mass (plain molecules of 2-60 heavy atoms, mass ratios 1-100)
with declared fractions over the simplex (>= 2 %), system masses worth >= 2000 molecules; plus polymer components.
Oracle (a) interface view, variance-free: if the selection probabilities handed to rng.choice are the same at every
step, the long-run mass share they imply, p_i*mu_i / sum_j p_j*mu_j, must equal the declared fraction.
Oracle (b) outcome view: the generated mass share of every component must lie within 8 sigma of the declared
fraction, sigma from the ideal independent-pick scheme (any scheme that converges at least that fast passes), plus
the stop-rule overshoot; re-confirmed with an independent seed.
"""
import math

import numpy as np
from hypothesis import strategies as st

from .. import probe
from ..acc import Acc
from ..hyp import drive

ID = "C14"
LEVEL = "exploration"
RULE = ("systems of 2-4 plain molecules from a pool with heavy-atom masses 12..786 (mass ratios up to 65) with "
        "declared fractions >= 2 %, mixed absolute/percent specifiers, system mass = 2000-6000 mean molecule masses, one ensemble per "
        "seed through System.generator with a recording generator; plus systems of 2-3 polymer components (five polymers x nine narrow or "
        "broad distributions, small molecules mixed in, half of them blends of two grades of the same polymer) with membership by residue "
        "tags; non-trivial = mass ratio >= 3 between two components and "
        "fractions not all equal; distinct = (system string, seed)")
ASSUMPTIONS = ["declared mass fractions are the ones the generator wrote into the string (absolute mass / system mass, or the percentage)",
               "tolerance 8 sigma (plain molecules) / 6 sigma with the measured size-biased member mass x 1.5 (polymer components) of the ideal "
               "independent-pick scheme + stop-rule overshoot; a rejection is re-run with another seed"]

SIZES = {"quick": 64, "thorough": 800}


def plan(tier, seed):
    return [{} for _ in range(16)]


POOL = ["CO", "CCO", "CCCO", "CCCCN", "CCCCCCO", "CCCCCCCCN", "CCCCCCCCCCCCO", "CCCCCCCCCCCCCCCCCCN", "ClC(Cl)Cl", "BrCBr",
        "IC(I)I", "IC(I)(I)C(I)(I)I", "c1ccccc1", "FC(F)(F)C(F)(F)F", "C", "N"]


@st.composite
def sys_case(draw, nmax=3000):
    n = draw(st.integers(2, 4))
    smis = draw(st.lists(st.sampled_from(POOL), min_size=n, max_size=n, unique=True))
    if draw(st.booleans()):
        smis[0], smis[-1] = draw(st.sampled_from(["CO", "C", "N", "CCO"])), draw(st.sampled_from(["IC(I)(I)C(I)(I)I", "IC(I)I"]))
        smis = list(dict.fromkeys(smis))
        n = len(smis)
    parts = [draw(st.integers(1, 20)) for _ in range(n)]
    tot = sum(parts)
    frac = [max(0.02, p / tot) for p in parts]
    z = sum(frac)
    frac = [f / z for f in frac]
    nmol = draw(st.integers(nmax // 3, nmax))
    kinds = [draw(st.sampled_from(["abs", "pct"])) for _ in range(n)]
    if "abs" not in kinds:
        kinds[0] = "abs"
    return smis, frac, nmol, kinds, draw(st.integers(0, 2**31 - 1))


def heavy_mass(smi):
    from rdkit import Chem
    from rdkit.Chem import Descriptors
    return Descriptors.HeavyAtomMolWt(Chem.MolFromSmiles(smi))


def run_ensemble(obj, seed, interleave=False):
    rng = probe.RecordingRNG(seed)
    masses = {}
    n = 0
    it = probe.system_generator(obj, rng)
    # a second ensemble of the same object advanced alternately (its own generator): must not disturb the first
    other = iter(probe.system_generator(obj, np.random.default_rng(seed + 5))) if interleave else None
    for mg in it:
        if other is not None:
            next(other, None)
        smi = mg.smiles
        masses[smi] = masses.get(smi, 0.0) + float(mg.weight)
        n += 1
        if n > 200000:
            break
    return masses, n, rng.log


def check(acc, smis, frac, nmol, kinds, seed):
    import gbigsmiles
    from rdkit import Chem

    mus = [heavy_mass(s) for s in smis]
    mean_mass = 1.0 / sum(f / m for f, m in zip(frac, mus))
    S = float(round(nmol * mean_mass))
    import numpy as np_
    text = ""
    for j, (s, f, k) in enumerate(zip(smis, frac, kinds)):
        v = f * 100 if k == "pct" else f * S
        # several exact spellings of the number (repr, scientific with signed exponent)
        num = repr(v) if (seed + j) % 3 else np_.format_float_scientific(v, unique=True)
        text += s + f".|{num}" + ("%|" if k == "pct" else "|")
    case = {"text": text, "seed": seed}
    status, obj = probe.guarded(gbigsmiles.System, text)
    if status != "ok" or not obj.generable:
        acc.count("system_not_generable_dropped(C12's business)")
        return
    mols = getattr(obj, "_molecules", None)
    try:
        Sobj = float(obj.system_mass)
    except Exception:  # noqa: BLE001
        acc.count("system_mass_unreadable")
        return
    # the declared mass fractions are the ones written into the string (ground truth of the generator)
    decl = list(frac)
    if abs(Sobj - S) > 1e-6 * S:
        acc.violation("system_mass", f"System({text!r}) reports system mass {Sobj!r}, written values give {S!r}", case, {"n": len(smis)}, size=len(text))
        return
    canon = [Chem.MolToSmiles(Chem.MolFromSmiles(s)) for s in smis]
    ratio = max(mus) / min(mus)
    nontrivial = ratio >= 3 and max(decl) - min(decl) > 1e-6
    sig = {"n": len(smis)}

    def shares(seed_):
        st_, res = probe.guarded(lambda: run_ensemble(obj, seed_, interleave=(seed % 3 == 1)), seconds=900)
        if st_ != "ok":
            return None
        masses, n, log = res
        G = sum(masses.values())
        return [masses.get(c, 0.0) / G for c in canon], n, log, G, [k for k in masses if k not in canon]

    r = shares(seed)
    if r is None:
        acc.count("ensemble_failed_or_timeout_dropped")
        return
    if seed % 2 == 0:
        # the composition must hold for every ensemble generated from the same object, not only the first one
        r_again = shares(seed + 1)
        if r_again is not None:
            r = r_again
            acc.label("second_ensemble_of_the_same_object")
    sh, n, log, G, foreign = r
    if seed % 3 == 1:
        acc.label("two_ensembles_of_the_same_object_advanced_alternately")
    acc.case((text, seed) if nontrivial else None, labels=[f"n:{len(smis)}", f"ratio:{min(100, int(ratio) // 5 * 5)}"])
    if foreign:
        acc.violation("foreign_member", f"ensemble of {text!r} contains {foreign[:3]}", case, sig, size=len(text))
    # (a) interface view
    ps = [tuple(round(x, 12) for x in p) for (opts, p, k) in log if p is not None and len(p) == len(smis)]
    if ps and all(p == ps[0] for p in ps):
        p = ps[0]
        den = sum(pi * mi for pi, mi in zip(p, mus))
        implied = [pi * mi / den for pi, mi in zip(p, mus)]
        acc.label("view:interface_stationary")
        for i, (a, b) in enumerate(zip(implied, decl)):
            if abs(a - b) > 1e-9:
                acc.violation("implied_mass_share", f"System({text!r}): component {i} ({smis[i]}, mass {mus[i]:.2f}) is picked with constant probability {p[i]:.6g}; "
                              f"that implies a long-run mass share of {a:.6f}, declared is {b:.6f}", case, sig, size=len(text))
                break
    else:
        acc.label("view:interface_not_stationary(skipped)")
    # (b) outcome view
    def eps(i):
        f = decl[i]
        var = (f * (1 - f) ** 2 * mus[i] + f * f * sum(decl[j] * mus[j] for j in range(len(mus)) if j != i)) / Sobj
        return 8 * math.sqrt(var) + 2 * max(mus) / Sobj
    bad = [i for i in range(len(smis)) if abs(sh[i] - decl[i]) > eps(i)]
    if bad:
        r2 = shares(seed + 104729)
        if r2 is not None:
            sh2 = r2[0]
            bad2 = [i for i in bad if abs(sh2[i] - decl[i]) > eps(i)]
            if bad2:
                i = bad2[0]
                acc.violation("mass_share", f"System({text!r}) S={Sobj:.6g} ({n} molecules): component {i} ({smis[i]}, mass {mus[i]:.2f}) has generated mass share "
                              f"{sh[i]:.4f} (second seed {sh2[i]:.4f}), declared {decl[i]:.4f}, tolerance {eps(i):.4f}", case, sig, size=len(text))
            else:
                acc.count("share_rejection_not_confirmed")
    if acc.evaluations % 3 == 0:
        acc.sample({"system": text, "molecules": n, "declared": [round(x, 4) for x in decl], "generated_share": [round(x, 4) for x in sh],
                    "tolerance": [round(eps(i), 4) for i in range(len(smis))]})


# ------------------------------------------------------------------------------------- polymer components, blends of one polymer
# heavy repeat units keep the number of units per molecule (and the cost of an ensemble) small
TEMPLATES = ["[H]{[>][<]C(I)C(I)[>][<]}|%s|[H]", "C{[$][$]C(Br)C(Br)[$],[$]CC(I)[$][$]}|%s|C", "{[][<]C(I)C(I)O[>];[<][H],[>]O[]}|%s|",
             "N{[<][>]C(=O)C(I)N[<][>]}|%s|O", "[H]{[>][<]CC([>])c1c(I)cc(I)cc1I[<]}|%s|[H]"]
DISTS = ["gauss(600, 20)", "gauss(1500, 50)", "gauss(3000, 100)", "uniform(500, 700)", "uniform(2500, 3500)", "poisson(900)",
         "schulz_zimm(1320, 1200)", "log_normal(2000, 1.02)", "flory_schulz(0.002)"]
SMALL = ["CCO", "CO", "IC(I)I", "c1ccccc1", "CCCCCCCCN"]


@st.composite
def poly_case(draw):
    n = draw(st.integers(2, 3))
    comps = []
    if draw(st.booleans()):
        # a blend of two grades of the same polymer: identical text apart from the distribution
        t = draw(st.sampled_from(TEMPLATES))
        d1, d2 = draw(st.lists(st.sampled_from(DISTS), min_size=2, max_size=2, unique=True))
        comps = [t % d1, t % d2]
    while len(comps) < n:
        c = draw(st.sampled_from(SMALL)) if draw(st.integers(0, 2)) == 0 else draw(st.sampled_from(TEMPLATES)) % draw(st.sampled_from(DISTS))
        if c not in comps:
            comps.append(c)
    parts = [draw(st.integers(1, 10)) for _ in comps]
    frac = [max(0.05, p / sum(parts)) for p in parts]
    frac = [f / sum(frac) for f in frac]
    kinds = [draw(st.sampled_from(["abs", "pct"])) for _ in comps]
    if "abs" not in kinds:
        kinds[0] = "abs"
    order = draw(st.permutations(list(range(len(comps)))))
    return [comps[i] for i in order], [frac[i] for i in order], draw(st.integers(1000, 1600)), [kinds[i] for i in order], draw(st.integers(0, 2**31 - 1))


def check_poly(acc, comps, frac, nmol, kinds, seed):
    """outcome view for components whose members have random masses; membership by residue tags (token identity)"""
    import gbigsmiles

    nres, rough = [], []
    for c in comps:
        st_, m = probe.guarded(gbigsmiles.Molecule, c)
        if st_ != "ok":
            acc.count("component_not_parsable_dropped")
            return
        nres.append(len(m.residues))
        st_, mg = probe.guarded(lambda: m.generate(rng=np.random.default_rng(seed)), seconds=60)
        if st_ != "ok":
            acc.count("component_not_generable_dropped")
            return
        rough.append(float(mg.weight))
    mean_mass = 1.0 / sum(f / m for f, m in zip(frac, rough))
    S = float(round(nmol * mean_mass))
    text = ""
    for j, (c, f, k) in enumerate(zip(comps, frac, kinds)):
        v = f * 100 if k == "pct" else f * S
        text += c + f".|{v!r}" + ("%|" if k == "pct" else "|")
    case = {"text": text, "seed": seed, "poly": {"comps": comps, "frac": frac, "nmol": nmol, "kinds": kinds}}
    sig = {"n": len(comps), "polymer": True, "same_text_blend": len({c.split("|")[0] for c in comps}) < len(comps)}
    status, obj = probe.guarded(gbigsmiles.System, text)
    if status != "ok" or not obj.generable:
        acc.count("system_not_generable_dropped(C12's business)")
        return
    res = list(obj.residues)
    if len(res) != sum(nres):
        acc.count("residues_not_attributable_dropped")
        return
    idx, comp_of = {}, []
    for ci, k in enumerate(nres):
        comp_of += [ci] * k
    for k, r in enumerate(res):
        idx[id(r)] = k
    Sobj = float(obj.system_mass)

    def shares(seed_):
        G = [0.0] * len(comps)
        G2 = [0.0] * len(comps)
        cnt = [0] * len(comps)
        bad = 0
        with probe.tag_residues(idx):
            it = probe.system_generator(obj, probe.CountingRNG(seed_))
            for mg in it:
                tags = {mg.graph.nodes[nn].get("gbsv_tok", -1) for nn in mg.graph.nodes()}
                cs = {comp_of[t] for t in tags if t is not None and 0 <= t < len(comp_of)}
                if len(cs) != 1 or any(t is None or t < 0 for t in tags):
                    bad += 1
                    continue
                ci = cs.pop()
                w = float(mg.weight)
                G[ci] += w
                G2[ci] += w * w
                cnt[ci] += 1
                if sum(cnt) > 100000:
                    break
        return G, G2, cnt, bad

    st_, r = probe.guarded(lambda: shares(seed), seconds=900)
    if st_ != "ok":
        if st_ == "raise" and "updating stopped" not in repr(r):
            acc.violation("ensemble_raises", f"iterating System({text!r}) raised {r!r}", case, {**sig, "error": type(r).__name__}, size=len(text))
        else:
            acc.count("ensemble_failed_or_timeout_dropped")
        return
    G, G2, cnt, bad = r
    if bad:
        acc.count("members_not_attributable", bad)
    tot = sum(G)
    sh = [g / tot for g in G]
    # size-biased mean member mass per component (declared-fraction weighted guess where a component produced nothing)
    meff = [(G2[i] / G[i]) if G[i] > 0 else max(rough) for i in range(len(comps))]
    mmax = max(meff) * 3

    def eps(i):
        f = frac[i]
        var = (f * (1 - f) ** 2 * meff[i] + f * f * sum(frac[j] * meff[j] for j in range(len(comps)) if j != i)) / Sobj
        return 6 * math.sqrt(1.5 * var) + 2 * mmax / Sobj
    acc.case((text, seed) if max(rough) / min(rough) >= 3 or sig["same_text_blend"] else None,
             labels=[f"n:{len(comps)}", "polymer_components", f"same_text_blend:{sig['same_text_blend']}"])
    badc = [i for i in range(len(comps)) if abs(sh[i] - frac[i]) > eps(i)]
    if badc:
        st2, r2 = probe.guarded(lambda: shares(seed + 104729), seconds=900)
        if st2 == "ok":
            G_, _, _, _ = r2
            sh2 = [g / sum(G_) for g in G_]
            bad2 = [i for i in badc if abs(sh2[i] - frac[i]) > eps(i)]
            if bad2:
                i = bad2[0]
                acc.violation("mass_share", f"System({text!r}) S={Sobj:.6g} ({sum(cnt)} molecules): component {i} ({comps[i]!r}, {cnt[i]} members) has generated mass share "
                              f"{sh[i]:.4f} (second seed {sh2[i]:.4f}), declared {frac[i]:.4f}, tolerance {eps(i):.4f}", case, sig, size=len(text))
            else:
                acc.count("share_rejection_not_confirmed")
    if acc.evaluations % 3 == 0:
        acc.sample({"system": text, "molecules": sum(cnt), "declared": [round(x, 4) for x in frac], "generated_share": [round(x, 4) for x in sh],
                    "tolerance": [round(eps(i), 4) for i in range(len(comps))]})


def run_shard(cfg):
    acc = Acc()
    n = max(1, SIZES[cfg["tier"]] // cfg["nshards"])
    drive(sys_case(6000 if cfg["tier"] == "thorough" else 2400), lambda x: check(acc, *x), n, cfg["seed"])
    drive(poly_case(), lambda x: check_poly(acc, *x), max(1, n // 4), cfg["seed"] + 1)
    return acc


def replay(case, rec):
    import re
    acc = Acc()
    if case.get("poly"):
        pc = case["poly"]
        check_poly(acc, pc["comps"], pc["frac"], pc["nmol"], pc["kinds"], case["seed"])
        return acc
    # rebuild from the text
    parts = re.findall(r"([A-Za-z0-9()]+)\.\|([^|%]+)(%?)\|", case["text"])
    smis = [p[0] for p in parts]
    import gbigsmiles
    obj = gbigsmiles.System(case["text"])
    S = float(obj.system_mass)
    frac = [float(m.mixture.absolute_mass) / S for m in obj._molecules]
    mus = [heavy_mass(s) for s in smis]
    nmol = int(S * sum(f / m for f, m in zip(frac, mus)))
    check(acc, smis, frac, max(2000, nmol), ["pct" if p[2] else "abs" for p in parts], case["seed"])
    return acc
