"""C01 - canonical notation round-trips: fixed point, same object, extensions erasable.

Domain: strings printed from reference ASTs at five levels (descriptor, token, stochastic object, molecule,
system) with whitespace / number-format variants, plus the strings harvested from README / SI / tests.
Oracle: round-trip (print -> parse -> print), object comparison between P(s) and P(str(P(s))), equal-seed
generation, and the metamorphic relation "printing without extensions == canonical string with |...| erased".
"""
import re

import numpy as np
from hypothesis import strategies as st

from .. import corpus, parsecmp, probe, reflaw
from ..acc import Acc
from ..ast import BD, Mol, Stoch, Sys, Tok
from ..hyp import drive
from ..strategies import WSTYLES, molecules, stoch_obj, systems, token

ID = "C01"
LEVEL = "exploration"
RULE = ("printed reference ASTs at 5 levels (descriptor, token, stochastic object, molecule with mixture, system) with "
        "whitespace and number-format variants + strings harvested from README/SI/tests that the parser accepts; "
        "non-trivial = the canonical string differs from the input (normalisation happened) or the object has >=2 "
        "elements/tokens; distinct = distinct canonical string")
ASSUMPTIONS = ["'same object' is compared on the public attributes of the parsed objects (symbol, id, weight, list, atom, "
               "bond order, token text, terminals, printed distribution, mixture masses)",
               "equal-seed generation is compared for 2 seeds per well-posed molecule, not for all seeds"]

QUICK = {"bd": 1500, "tokens": 6000, "objects": 1200, "mols": 1200, "systems": 500, "gen": 400}
THOROUGH = {"bd": 20000, "tokens": 150000, "objects": 20000, "mols": 20000, "systems": 6000, "gen": 4000}

_EXT = re.compile(r"\|[^|]*\|")
_BDTXT = re.compile(r"\[[$<>]\d*\]|\[\]")


def plan(tier, seed):
    return [{} for _ in range(16)]


# ------------------------------------------------------------------------------------------ object facts
def facts(obj):
    """public facts of a parsed object, as nested plain data"""
    import gbigsmiles as g

    if isinstance(obj, g.BondDescriptor):
        return ("bd", tuple(sorted(parsecmp.bd_facts(obj).items(), key=lambda kv: kv[0])).__repr__())
    if isinstance(obj, g.SmilesToken):
        return ("tok", obj.generate_string(False), [facts(b) for b in obj.bond_descriptors])
    if isinstance(obj, g.Stochastic):
        return ("stoch", facts(obj.left_terminal), facts(obj.right_terminal), [facts(t) for t in obj.repeat_tokens],
                [facts(t) for t in obj.end_tokens], parsecmp.dist_facts(getattr(obj, "distribution", None)))
    if isinstance(obj, g.Molecule):
        mix = getattr(obj, "mixture", None)
        return ("mol", [facts(e) for e in obj.elements],
                None if mix is None else (mix.absolute_mass, mix.relative_mass, mix.system_mass))
    if isinstance(obj, g.System):
        mols = getattr(obj, "_molecules", None)
        if mols is None:
            return ("sys", "unobservable")
        return ("sys", [facts(m) for m in mols])
    return ("other", repr(obj))


def _approx_equal(a, b):
    if isinstance(a, float) and isinstance(b, float):
        return parsecmp.close(a, b)
    if isinstance(a, (list, tuple)) and isinstance(b, (list, tuple)):
        return len(a) == len(b) and all(_approx_equal(x, y) for x, y in zip(a, b))
    return a == b


def skeleton(s):
    return re.sub(r"\s+", "", _BDTXT.sub("", s))


def ast_noext(x):
    """expected no-extension skeleton and descriptor multiset from the AST"""
    def tok_skel(t):
        return skeleton(_EXT.sub("", t.text_ext))

    def tok_bds(t):
        return [b.text(False) for b in t.bds]

    if isinstance(x, Tok):
        return tok_skel(x), sorted(tok_bds(x))
    if isinstance(x, Stoch):
        sk = "{" + ",".join(tok_skel(t) for t in x.repeat) + ((";" + ",".join(tok_skel(t) for t in x.end)) if x.end else "") + "}"
        bds = [x.left.text(False), x.right.text(False)]
        for t in x.tokens:
            bds += tok_bds(t)
        return sk, sorted(bds)
    if isinstance(x, Mol):
        sk, bds = "", []
        for e in x.elements:
            a, b = ast_noext(e)
            sk += a
            bds += b
        if x.mix is not None:
            sk += "."
        return sk, sorted(bds)
    if isinstance(x, Sys):
        sk, bds = "", []
        for m in x.mols:
            a, b = ast_noext(m)
            sk += a
            bds += b
        return sk, sorted(bds)
    raise TypeError(x)


# ------------------------------------------------------------------------------------------------ oracle
def roundtrip(acc, level, text, ctor, ast=None, gen=False, src="generated", sysmass=None):
    """ctor(string) -> object"""
    case = {"level": level, "text": text, "src": src}
    if ast is not None:
        case["ast"] = ast.to_json()
    hz = parsecmp.hazards_of(ast) if ast is not None and not isinstance(ast, BD) else []
    status, obj = probe.guarded(ctor, text, seconds=20)
    if status != "ok":
        acc.count(f"input_not_accepted:{status}")
        acc.case(None, labels=[f"{level}:rejected_input"])
        return  # the quantifier is over accepted strings (valid-but-rejected is C02's business)
    sig = {"level": level}
    try:
        c = str(obj)
        ne = obj.generate_string(False)
    except Exception as exc:  # noqa: BLE001
        acc.case(text, labels=[f"{level}"])
        acc.violation("print", f"printing the parsed object of {text!r} raised {exc!r}", case, {**sig, "error": type(exc).__name__})
        return
    nontrivial = (c != text) or (ast is not None and not isinstance(ast, BD) and len(getattr(ast, "tokens", [ast])) >= 2)
    acc.case(c if nontrivial else None, labels=[level, f"{level}:{src}"])
    # (i) accepted again
    st2, obj2 = probe.guarded(ctor, c, seconds=20)
    if st2 != "ok":
        acc.violation("reparse", f"canonical string {c!r} (from {text!r}) is not accepted again: {st2} {obj2!r}", case,
                      {**sig, "error": type(obj2).__name__ if st2 == "raise" else st2}, size=len(text))
        obj2 = None
    if obj2 is not None:
        # (ii) fixed point
        try:
            c2 = str(obj2)
        except Exception as exc:  # noqa: BLE001
            c2 = f"<raised {exc!r}>"
        if c2 != c:
            acc.violation("fixed_point", f"str(P(c)) != c\n c ={c!r}\n c2={c2!r}", case, sig, size=len(text))
        # (iii) same object
        try:
            f1, f2 = facts(obj), facts(obj2)
        except Exception as exc:  # noqa: BLE001
            f1 = f2 = None
            acc.violation("facts", f"reading attributes raised {exc!r}", case, sig, size=len(text))
        if f1 is not None and not _approx_equal(f1, f2):
            acc.violation("same_object", f"P(s) and P(str(P(s))) differ\n s={text!r}\n c={c!r}\n {_first_diff(f1, f2)}", case, sig, size=len(text))
        try:
            g1, g2 = bool(obj.generable), bool(obj2.generable)
            if g1 != g2:
                acc.violation("same_generable", f"generable {g1} -> {g2} after round trip of {text!r}", case, sig, size=len(text))
        except Exception as exc:  # noqa: BLE001
            acc.violation("generable_raises", f".generable raised {exc!r} for {text!r}", case, sig, size=len(text))
    # (iv) extensions erasable
    erased = _EXT.sub("", c)
    if ne != erased:
        acc.violation("noext_is_erased", f"generate_string(False) != canonical with |...| erased\n ne={ne!r}\n er={erased!r}", case, sig, size=len(text))
    if "|" in ne:
        acc.violation("noext_has_bar", f"generate_string(False) contains '|': {ne!r}", case, sig, size=len(text))
    if ast is not None and not isinstance(ast, BD):
        sk, bds = ast_noext(ast)
        got_bds = sorted(_BDTXT.findall(ne))
        if skeleton(ne) != sk:
            acc.violation("noext_tokens", f"no-extension string loses/changes tokens\n ne={ne!r}\n expected skeleton {sk!r}", case, {**sig, "hazards": hz}, size=len(text))
        elif got_bds != bds:
            acc.violation("noext_descriptors", f"no-extension string has descriptors {got_bds}, notation has {bds}\n ne={ne!r}", case, {**sig, "hazards": hz}, size=len(text))
    # (v) single molecule: no-extension form is accepted and has the same tokens / descriptors
    if level == "molecule":
        import gbigsmiles
        st3, obj3 = probe.guarded(gbigsmiles.Molecule, ne, seconds=20)
        if st3 != "ok":
            acc.violation("noext_reparse", f"no-extension form {ne!r} of molecule {text!r} is not accepted: {st3} {obj3!r}", case,
                          {**sig, "error": type(obj3).__name__ if st3 == "raise" else st3,
                           "ends_with_object": ne.rstrip().endswith("}")}, size=len(text))
        else:
            try:
                ne3 = obj3.generate_string(False)
            except Exception as exc:  # noqa: BLE001
                ne3 = f"<raised {exc!r}>"
            # the trailing '.' is the erased mixture, not a token
            if skeleton(ne3).rstrip(".") != skeleton(ne).rstrip(".") or sorted(_BDTXT.findall(ne3)) != sorted(_BDTXT.findall(ne)):
                acc.violation("noext_same", f"re-parsed no-extension form denotes other tokens/descriptors\n ne ={ne!r}\n ne3={ne3!r}", case, sig, size=len(text))
    # equal-seed generation
    if gen and obj2 is not None:
        for k in (11, 12):
            r1 = _gen(obj, k)
            r2 = _gen(obj2, k)
            acc.count("generation_pairs")
            if r1[0] == "timeout" or r2[0] == "timeout":
                acc.count("generation_timeout")
                continue
            # printing after generating still gives the canonical string
            try:
                after = str(obj)
            except Exception as exc:  # noqa: BLE001
                after = f"<raised {exc!r}>"
            if after != c:
                acc.violation("print_after_generate", f"str() of the object parsed from {text!r} changed after generate(): {c!r} -> {after!r}", case, sig, size=len(text))
                break
            if r1 != r2:
                acc.violation("same_molecule", f"seed {k}: P(s) generates {r1}, P(str(P(s))) generates {r2}\n s={text!r}\n c={c!r}", case, sig, size=len(text))
                break


def _gen(obj, k):
    status, val = probe.guarded(lambda: obj.generate(rng=np.random.default_rng(k)), seconds=60)
    if status == "ok":
        try:
            return ("ok", val.smiles, round(float(val.weight), 6))
        except Exception as exc:  # noqa: BLE001
            return ("raise_smiles", type(exc).__name__)
    if status == "raise":
        return ("raise", type(val).__name__)
    return ("timeout",)


def _first_diff(a, b, path=""):
    if type(a) != type(b) or not isinstance(a, (list, tuple)):
        return f"at {path}: {a!r} vs {b!r}" if not _approx_equal(a, b) else ""
    if len(a) != len(b):
        return f"at {path}: lengths {len(a)} vs {len(b)}"
    for i, (x, y) in enumerate(zip(a, b)):
        d = _first_diff(x, y, f"{path}/{i}")
        if d:
            return d
    return ""


# ---------------------------------------------------------------------------------------------- strategies
@st.composite
def bd_case(draw):
    sym = draw(st.sampled_from(["$", "<", ">", "$", "<", ">", ""]))
    if sym == "":
        return BD("")
    w = draw(st.sampled_from([None, None, 1.0, 2.0, 0.0, 0.5, 10.1, 1e-3, 123456.0, 0.00005, 1e-7, 1e16, 3e22, (1.0, 0.0, 3.0), (0.0, 7.5), (1.0,) * 7,
                               (0.0, 0.7, 0.0, 0.3), (1.0, 0.0, 0.0), (0.25, 0.25, 0.5), (0.00005, 1.0)]))
    return BD(sym, draw(st.sampled_from([None, None, 0, 1, 7, 12, 345])), w, 1, draw(st.sampled_from(WSTYLES + ["traildot"])))


@st.composite
def token_case(draw):
    n = draw(st.integers(0, 4))
    bds = []
    for _ in range(n):
        w = draw(st.sampled_from([None, None, 2.0, 0.0, 0.5, 10.1, 0.00005, 1e16, (1.0, 0.0, 3.0), (0.0, 7.0), (0.0, 1.0), (0.7, 0.3)]))
        bds.append(BD(draw(st.sampled_from("$<>")), draw(st.sampled_from([None, None, 0, 1, 7, 12])), w,
                      draw(st.sampled_from([1, 1, 1, 1, 2, 3])), draw(st.sampled_from(WSTYLES + ["traildot"])),
                      explicit_single=draw(st.integers(0, 9)) == 0))
    return draw(token(bds, max_atoms=9))


@st.composite
def obj_case(draw):
    l = draw(st.sampled_from(["", "$", "<", ">"]))
    r = draw(st.sampled_from(["", "$"] if l in ("", "$") else ["", {"<": ">", ">": "<"}[l]]))
    if l == "" and r == "":
        r = draw(st.sampled_from(["", "<", ">", "$"]))
    return draw(stoch_obj(l, r, max_atoms=6, dist=draw(st.integers(0, 5)) > 0))[0]


@st.composite
def mol_case(draw):
    m = draw(molecules(max_blocks=3, max_atoms=6))
    k = draw(st.integers(0, 3))
    if k == 1:
        m.mix = ("abs", float(draw(st.sampled_from([500, 1234.5, 5e7, 0.5]))))
    elif k == 2:
        m.mix = ("pct", float(draw(st.sampled_from([50, 12.5, 100, 0.1, 0.25]))))
    m.mix_style = draw(st.sampled_from(["plain", "float", "exp", "nolead"]))
    return m


def run_shard(cfg):
    import gbigsmiles as g

    acc = Acc()
    n = THOROUGH if cfg["tier"] == "thorough" else QUICK
    per = {k: max(1, v // cfg["nshards"]) for k, v in n.items()}
    seed = cfg["seed"]

    # corpus first (shard 0 only; it is small)
    if cfg["shard"] == 0:
        for s, f in corpus.harvest().items():
            level = "system"
            roundtrip(acc, "system", s, g.System, None, src="corpus:" + f)
            if ".|" not in s:
                roundtrip(acc, "molecule", s, g.Molecule, None, src="corpus:" + f)

    drive(bd_case(), lambda b: roundtrip(acc, "descriptor", b.text(True), lambda t: g.BondDescriptor(t, 0, "", 0), b), per["bd"], seed)

    def f_tok(t):
        roundtrip(acc, "token", t.text_ext, lambda s: g.SmilesToken(s, 0, 0), t)
        if acc.evaluations % 211 == 0:
            acc.sample({"level": "token", "text": t.text_ext})
    drive(token_case(), f_tok, per["tokens"], seed + 1)

    def f_obj(s):
        roundtrip(acc, "stochastic", s.text(), lambda t: g.Stochastic(t, 0), s)
        if acc.evaluations % 97 == 0:
            acc.sample({"level": "stochastic", "text": s.text()})
    drive(obj_case(), f_obj, per["objects"], seed + 2)

    def f_mol(m):
        roundtrip(acc, "molecule", m.text(True), g.Molecule, m)
        if acc.evaluations % 97 == 0:
            acc.sample({"level": "molecule", "text": m.text(True)})
    drive(mol_case(), f_mol, per["mols"], seed + 3)

    def f_sys(s):
        roundtrip(acc, "system", s.text(), g.System, s)
        if acc.evaluations % 41 == 0:
            acc.sample({"level": "system", "text": s.text()})
    drive(systems(max_mols=3, max_blocks=2), f_sys, per["systems"], seed + 4)

    # generation under equal seeds, well-posed closed molecules only
    def f_gen(m):
        ok, why = reflaw.well_posed(m)
        if not ok:
            acc.count("gen_rejected_ill_posed")
            return
        roundtrip(acc, "molecule", m.text(False), g.Molecule, m, gen=True, src="generated+gen")
    drive(molecules(max_blocks=2, max_atoms=4, small=True), f_gen, per["gen"], seed + 5)
    return acc


def shrink_candidates(case):
    """molecule-level cases: smaller molecules (the printer's output is re-derived from the reduced AST)"""
    if case.get("level") != "molecule" or "ast" not in case:
        return
    from ..shrink import mol_candidates
    for ast, text in mol_candidates(case["ast"], need_well_posed=False):
        yield {**case, "ast": ast, "text": text}


def replay(case, rec):
    import gbigsmiles as g

    acc = Acc()
    lvl = case["level"]
    ctor = {"descriptor": lambda t: g.BondDescriptor(t, 0, "", 0), "token": lambda s: g.SmilesToken(s, 0, 0),
            "stochastic": lambda t: g.Stochastic(t, 0), "molecule": g.Molecule, "system": g.System}[lvl]
    ast = None
    if "ast" in case:
        ast = {"descriptor": BD, "token": Tok, "stochastic": Stoch, "molecule": Mol, "system": Sys}[lvl].from_json(case["ast"])
    roundtrip(acc, lvl, case["text"], ctor, ast, gen=(case.get("src") == "generated+gen"), src=case.get("src", "replay"))
    return acc
