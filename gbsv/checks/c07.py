"""C07 - a stochastic object stops growing at the first unit that exceeds its drawn mass.

Domain: well-posed closed molecules of every archetype x (random streams from generated seeds, forced and
sampled target masses) and x every sequence of random choices for bounded instances (scripted generator).
Oracle: see gbsv/genoracle.py (residue decomposition verified against reference fragments built from the AST).
"""
from . import gencheck

ID = "C07"
LEVEL = "exploration"
RULE = ("generated well-posed molecules (closability analysis) of all archetypes, generated with seeded generators under "
        "forced (k units +- 1e-7 / half a unit / below one unit / negative) or sampled targets, plus all choice sequences "
        "(scripted generator, depth-first) of bounded instances; non-trivial = " + gencheck.NONTRIVIAL[ID] +
        "; distinct = (molecule string, seed or choice script)")
ASSUMPTIONS = ["residue identity is observed through a node attribute the harness adds to the public MolGen.graph and is then "
               "verified atom by atom against reference fragments built from the AST",
               "RDKit sanitisation / canonical SMILES trusted on both sides",
               "well-posedness is decided by the closability analysis of gbsv/reflaw.py"]


def plan(tier, seed):
    return gencheck.plan(tier, seed)


def run_shard(cfg):
    return gencheck.run_shard(cfg, ID)


def shrink_candidates(case):
    return gencheck.shrink_candidates(case)


def replay(case, rec):
    return gencheck.replay(case, ID)
