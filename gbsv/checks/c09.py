"""C09 - block sizes in an ensemble follow the declared molecular-weight distribution.

Domain: family x parameter region x repeat-unit mass x 1-2 blocks per molecule, linear single-unit blocks so that
"size" is the number of repeat units n; generated molecule by molecule with a seeded generator and, alternatively,
pooled over many small ensembles through System.generator.
Oracle: P_ref(n) = F(c_n) - F(c_(n-1)) (P_ref(1) = F(c_1)) with c_n = n * unit mass and F the closed-form reference
law with the documented parameter meaning; exact binomial test per size bin (alpha 1e-10 Bonferroni, re-confirmed);
for two blocks additionally independence (P(n1 = n2) and the 2x2 median table against the product law) and exactly
one draw per object per generation.
"""
import math

import numpy as np
from hypothesis import strategies as st

from .. import gen, probe, refdist, stats as gst
from ..acc import Acc
from ..hyp import drive

ID = "C09"
LEVEL = "exploration"
RULE = ("(family, parameters) x repeat unit (masses 14-104) x {1, 2 blocks} x {single molecules, pooled small ensembles}; N seeded "
        "generations per case, histogram of unit counts per block against the reference law; non-trivial = case with >=4 size bins "
        "of expected count >= 20; distinct = (molecule string, route)")
ASSUMPTIONS = ["reference laws as in C11 with the documented parameter order: gauss(mean, sigma), uniform(low, high), schulz_zimm(Mw, Mn), "
               "log_normal(Mn, dispersity), poisson(mean), flory_schulz(a)",
               "block size is read from residue tags on MolGen.graph",
               "exact binomial per bin, alpha = 1e-10 / (bins x cases), a rejection must repeat with an independent seed and twice the sample; "
               "tolerance band for the integer-sampled Schulz-Zimm density"]

SIZES = {"quick": {"cases": 48, "n": 600}, "thorough": {"cases": 240, "n": 3000}}
def _unit(txt):
    import re
    from rdkit import Chem
    from rdkit.Chem import Descriptors
    return txt, Descriptors.HeavyAtomMolWt(Chem.MolFromSmiles(re.sub(r"\[[<>$]\]", "", txt).replace("()", "")))


UNITS = [_unit(u) for u in ("[<]C[>]", "[<]CC[>]", "[<]CO[>]", "[<]CC(C)[>]", "[<]C(c1ccccc1)C[>]", "[<]CC(C(=O)OC)[>]", "[<]C(F)(F)C(F)(F)[>]",
                                   "[<][13CH2][13CH2][>]", "[<][13CH2]C([15NH2])[>]")]
ALPHA = 1e-10
TIME_CAP = 150.0


def plan(tier, seed):
    return [{} for _ in range(16)]


@st.composite
def dist_for(draw, m):
    """a distribution whose mean is 2-9 units of mass m"""
    fam = draw(st.sampled_from(["gauss", "uniform", "schulz_zimm", "schulz_zimm", "schulz_zimm", "log_normal", "log_normal", "poisson",
                                "flory_schulz", "flory_schulz"]))
    k = draw(st.floats(2.0, 9.0))
    mean = float(f"{k * m:.4g}")
    if fam == "gauss":
        return fam, (mean, float(f"{mean * draw(st.sampled_from([0.1, 0.25, 0.5])):.4g}"))
    if fam == "uniform":
        lo = int(mean * draw(st.sampled_from([0.3, 0.6, 0.9])))
        return fam, (float(lo), float(int(2 * mean - lo) + 1))
    if fam == "schulz_zimm":
        mn = max(30.0, mean)
        return fam, (float(f"{mn * draw(st.sampled_from([1.05, 1.1, 1.3, 1.6, 2.0])):.5g}"), mn)
    if fam == "log_normal":
        return fam, (mean, draw(st.sampled_from([1.03, 1.1, 1.3, 1.8])))
    if fam == "poisson":
        return fam, (mean,)
    a = 2.0 / (mean + 1)
    return fam, (float(f"{min(0.9, a):.4g}"),)


def dtext(fam, params):
    return f"{fam}(" + ", ".join(str(int(p)) if fam == "uniform" else repr(p) for p in params) + ")"


@st.composite
def case(draw):
    nb = draw(st.sampled_from([1, 1, 2]))
    blocks = []
    for _ in range(nb):
        u, m = draw(st.sampled_from(UNITS))
        fam, params = draw(dist_for(m))
        blocks.append((u, m, fam, params))
    route = draw(st.sampled_from(["molecule", "molecule", "ensemble"]))
    return blocks, route, draw(st.integers(0, 2**31 - 1))


def p_sizes(ref, m, nmax=400):
    """reference probabilities of n = 1..: P(n) = P((n-1)m <= T < n m), P(1) = P(T < m)"""
    def below(x):  # P(T < x)
        if ref.family == "schulz_zimm":
            return ref.cdf_int(math.ceil(x) - 1)
        if ref.discrete:
            return ref.cdf(math.ceil(x) - 1)
        return ref.cdf(x)
    out, prev = [], 0.0
    for n in range(1, nmax + 1):
        c = below(n * m)
        out.append(max(0.0, c - prev))
        prev = c
        if 1 - c < 1e-13 and n > 2:
            break
    out[-1] += max(0.0, 1 - prev)
    return out


def sizes_from(parsed, mg, nstoch):
    owner = []
    ei = 0
    from ..genoracle import tok_owner
    own = tok_owner(parsed.ast)
    counts = {}
    for n_ in sorted(mg.graph.nodes()):
        t = mg.graph.nodes[n_].get("gbsv_tok")
        if t is None or t < 0:
            return None
        e, role = own[t]
        if role == "repeat":
            counts[e] = counts.get(e, 0) + 1
    return counts


def build_ast(blocks):
    """minimal AST (only what the tagging needs) for [H]{[>] [<]U[>] [<]}|d|...[H]"""
    from ..ast import BD, Dist, Mol, Stoch, Tok
    els, written = [], []
    pre = Tok(["[H]"], [], [(0, BD(">", None, 0.0))], "[H][>|0|]")
    els.append(pre)
    written.append("[H]")
    for u, m, fam, params in blocks:
        # unit token: descriptors first/last; only text and count matter here
        t = Tok(["C"], [], [(0, BD("<")), (0, BD(">"))], u)
        s = Stoch(BD(">"), BD("<"), [t], [], Dist(fam, params), ("", "", "", ""))
        els.append(s)
        written.append("{[>]" + u + "[<]}|" + dtext(fam, params) + "|")
    suf = Tok(["[H]"], [], [(0, BD("<"))], "[<][H]")
    els.append(suf)
    written.append("[H]")
    return Mol(els, written, None, "plain", "c09")


def sample_sizes(text, ast, n, seed, route, mean_mass):
    """list of tuples (n_block1, n_block2, ...) ; draws per generation; errors"""
    import gbigsmiles
    import time
    out, ndraws, errors = [], [], 0
    # wall-clock cap per sample (a correct tree needs ~10 s): when it is hit the decision is taken on the smaller sample -
    # less power, never a verdict by itself
    t_end = time.time() + TIME_CAP
    if route == "molecule":
        st_, obj = probe.guarded(gbigsmiles.Molecule, text)
        if st_ != "ok":
            return None, None, f"parse: {obj!r}"
        res = list(obj.residues)
        parsed = gen.Parsed(ast, obj, {id(r): k for k, r in enumerate(res)}, ast.tokens)
        rng = probe.CountingRNG(seed)
        for _ in range(n):
            if time.time() > t_end and len(out) >= 50:
                break
            g = gen.generate(parsed, rng, None, seconds=120)
            if g.status != "ok":
                errors += 1
                continue
            c = sizes_from(parsed, g.molgen, len(ast.elements))
            if c is None:
                return None, None, "tags missing"
            out.append(tuple(c.get(e, 0) for e in range(1, len(ast.elements) - 1)))
            ndraws.append(len(g.draws))
        return out, ndraws, errors
    # pooled small ensembles
    S = 3.0 * mean_mass
    stext = text + f".|{S!r}|"
    st_, obj = probe.guarded(gbigsmiles.System, stext)
    if st_ != "ok" or not obj.generable:
        return None, None, "system not generable"
    res = list(obj.residues)
    idx = {id(r): k for k, r in enumerate(res)}
    parsed = gen.Parsed(ast, obj, idx, ast.tokens)
    rng = probe.CountingRNG(seed)
    guard = 0
    with probe.tag_residues(idx):
        while len(out) < n and guard < 4 * n:
            guard += 1
            if time.time() > t_end and len(out) >= 50:
                break
            try:
                with probe.alarm(120):
                    for mg in probe.system_generator(obj, rng):
                        c = sizes_from(parsed, mg, len(ast.elements))
                        if c is None:
                            return None, None, "tags missing"
                        out.append(tuple(c.get(e, 0) for e in range(1, len(ast.elements) - 1)))
            except probe.Timeout:
                errors += 1
            except Exception:  # noqa: BLE001
                errors += 1
    return out[:n] if False else out, [len(ast.elements) - 2] * len(out), errors


def gof(counts_by_n, total, probs, delta, nbins_alpha):
    """merge sizes into bins of expected >= 20; returns (rejected?, detail, nbins)"""
    bins = []
    cur_p, cur_k, lo = 0.0, 0, 1
    for i, p in enumerate(probs, start=1):
        cur_p += p
        cur_k += counts_by_n.get(i, 0)
        if cur_p * total >= 20:
            bins.append((lo, i, cur_p, cur_k))
            cur_p, cur_k, lo = 0.0, 0, i + 1
    over = sum(v for k, v in counts_by_n.items() if k > len(probs))
    if bins:
        a, b, p, k = bins[-1]
        bins[-1] = (a, max(b, len(probs)), p + cur_p, k + cur_k + over)
    else:
        bins = [(1, len(probs), 1.0, total)]
    rej = gst.reject_bins([b[3] for b in bins], total, [b[2] for b in bins], nbins_alpha, delta)
    if rej:
        i, k, p, t = rej[0]
        return True, f"sizes {bins[i][0]}..{bins[i][1]}: {k}/{total} blocks, reference probability {p:.5f} (tail {t:.2e})", len(bins)
    return False, "", len(bins)


def check(acc, blocks, route, seed, n):
    ast = build_ast(blocks)
    text = ast.text(False)
    refs = [refdist.Ref(fam, params) for u, m, fam, params in blocks]
    probs = [p_sizes(r, m) for r, (u, m, fam, params) in zip(refs, blocks)]
    mean_mass = sum(sum((i + 1) * p for i, p in enumerate(ps)) * m for ps, (u, m, _, _) in zip(probs, blocks))
    case = {"blocks": [[u, m, fam, list(params)] for u, m, fam, params in blocks], "route": route, "seed": seed, "text": text}
    sig = {"families": "+".join(sorted({b[2] for b in blocks})), "route": route}

    def run(seed_, n_):
        return sample_sizes(text, ast, n_, seed_, route, mean_mass)

    sizes, ndraws, errors = run(seed, n)
    if sizes is None:
        acc.count("case_dropped:" + str(errors)[:40])
        return
    if errors:
        acc.violation("generation_raises", f"{errors} of {n} generations of {text!r} raised / timed out", case, sig, size=len(text))
    if not sizes:
        return
    deltas = []
    for r in refs:
        deltas.append(2.0 / r.mn if r.family == "schulz_zimm" else 0.0)  # normalisation slack of the integer-sampled density
    nb_total = 0
    rejected = []
    for b in range(len(blocks)):
        cnt = {}
        for s in sizes:
            cnt[s[b]] = cnt.get(s[b], 0) + 1
        unit_m = blocks[b][1]
        rej, detail, nb = gof(cnt, len(sizes), probs[b], deltas[b], ALPHA / 1000.0)
        nb_total = max(nb_total, nb)
        # mean block size (more powerful than single bins against a uniform shift): 8 sigma of the reference law
        mu_ref = sum((i + 1) * p for i, p in enumerate(probs[b]))
        var_ref = sum(((i + 1) - mu_ref) ** 2 * p for i, p in enumerate(probs[b]))
        mean_obs_b = sum(s[b] for s in sizes) / len(sizes)
        slack = (deltas[b] * 4 * mu_ref) + 1e-9
        if var_ref > 0 and abs(mean_obs_b - mu_ref) > 8 * math.sqrt(var_ref / len(sizes)) + slack and not rej:
            rej, detail = True, f"mean size {mean_obs_b:.3f} of {len(sizes)} blocks, reference {mu_ref:.3f} +- {math.sqrt(var_ref / len(sizes)):.3f}"
            rejected.append((b, detail))
            continue
        if rej:
            rejected.append((b, detail))
    if rejected:
        sizes2, _, _ = run(seed + 15485863, 2 * n)
        confirmed = []
        if sizes2:
            for b, detail in rejected:
                cnt = {}
                for s in sizes2:
                    cnt[s[b]] = cnt.get(s[b], 0) + 1
                rej2, detail2, _ = gof(cnt, len(sizes2), probs[b], deltas[b], ALPHA / 1000.0)
                mu_ref = sum((i + 1) * p for i, p in enumerate(probs[b]))
                var_ref = sum(((i + 1) - mu_ref) ** 2 * p for i, p in enumerate(probs[b]))
                m2 = sum(s[b] for s in sizes2) / len(sizes2)
                if not rej2 and abs(m2 - mu_ref) > 8 * math.sqrt(var_ref / len(sizes2)) + deltas[b] * 4 * mu_ref:
                    rej2, detail2 = True, f"mean size {m2:.3f} of {len(sizes2)} blocks"
                if rej2:
                    confirmed.append((b, detail, detail2))
        if confirmed:
            b, d1, d2 = confirmed[0]
            mean_obs = sum(s[b] for s in sizes) / len(sizes)
            mean_ref = sum((i + 1) * p for i, p in enumerate(probs[b]))
            acc.violation("size_law", f"{text!r} [{route}] block {b} ({dtext(blocks[b][2], blocks[b][3])}, unit mass {blocks[b][1]}): {d1}; second seed: {d2}; "
                          f"mean size {mean_obs:.3f} vs {mean_ref:.3f}", case, {**sig, "family": blocks[b][2]}, size=len(text))
        else:
            acc.count("gof_rejection_not_confirmed")
    if route == "molecule" and ndraws and any(d != len(blocks) for d in ndraws):
        bad = next(d for d in ndraws if d != len(blocks))
        acc.violation("one_draw_per_object", f"{text!r}: {bad} target masses drawn in one generation for {len(blocks)} stochastic objects", case, sig, size=len(text))
    if len(blocks) == 2 and route == "molecule":
        p_eq = sum(a * b for a, b in zip(probs[0], probs[1]))
        k_eq = sum(1 for s in sizes if s[0] == s[1])
        t = gst.binom_tail(k_eq, len(sizes), p_eq, deltas[0] + deltas[1] + 0.002)
        med0 = _median(probs[0])
        med1 = _median(probs[1])
        pa = sum(probs[0][:med0])
        pb = sum(probs[1][:med1])
        k_ll = sum(1 for s in sizes if s[0] <= med0 and s[1] <= med1)
        t2 = gst.binom_tail(k_ll, len(sizes), pa * pb, deltas[0] + deltas[1] + 0.002)
        if min(t, t2) < ALPHA / 1000.0:
            sizes2, _, _ = run(seed + 32452843, 2 * n)
            if sizes2:
                k2 = sum(1 for s in sizes2 if s[0] == s[1])
                kk2 = sum(1 for s in sizes2 if s[0] <= med0 and s[1] <= med1)
                if min(gst.binom_tail(k2, len(sizes2), p_eq, deltas[0] + deltas[1] + 0.002),
                       gst.binom_tail(kk2, len(sizes2), pa * pb, deltas[0] + deltas[1] + 0.002)) < ALPHA / 1000.0:
                    acc.violation("blocks_independent", f"{text!r}: P(n1 == n2) observed {k_eq}/{len(sizes)} (product law {p_eq:.4f}); both below median "
                                  f"{k_ll}/{len(sizes)} (product law {pa * pb:.4f})", case, sig, size=len(text))
    acc.case((text, route) if nb_total >= 4 else None, labels=["fam:" + b[2] for b in blocks] + [f"blocks:{len(blocks)}", "route:" + route])
    if acc.evaluations % 3 == 0:
        b = 0
        mean_obs = sum(s[b] for s in sizes) / len(sizes)
        mean_ref = sum((i + 1) * p for i, p in enumerate(probs[b]))
        acc.sample({"molecule": text, "route": route, "generations": len(sizes), "mean_units_observed": round(mean_obs, 3), "mean_units_reference": round(mean_ref, 3)})


def _median(ps):
    c = 0.0
    for i, p in enumerate(ps, start=1):
        c += p
        if c >= 0.5:
            return i
    return len(ps)


def run_shard(cfg):
    acc = Acc()
    sz = SIZES[cfg["tier"]]
    n = max(1, sz["cases"] // cfg["nshards"])
    drive(case(), lambda x: check(acc, x[0], x[1], x[2], sz["n"]), n, cfg["seed"])
    return acc


def replay(case, rec):
    acc = Acc()
    blocks = [(b[0], b[1], b[2], tuple(b[3])) for b in case["blocks"]]
    check(acc, blocks, case["route"], case["seed"], 1500)
    return acc
