"""C02 - parsing recovers exactly the structure the notation denotes.

Domain: strings printed from reference ASTs (tokens with every descriptor placement, stochastic objects,
molecules, systems) by the independent printer.  Oracle: the AST (ground truth by construction) compared field
by field with what the repository parsed; internal bonds through the public SMILES fragment.
"""
from hypothesis import strategies as st

from .. import parsecmp, probe
from ..acc import Acc
from ..ast import BD, Mol, Stoch, Sys, Tok
from ..hyp import drive
from ..strategies import molecules, systems, token, stoch_obj, WSTYLES

ID = "C02"
LEVEL = "exploration"
RULE = ("strings printed by an independent printer from generated reference ASTs: single tokens with 0-4 descriptors in "
        "every legal placement (leading, chain end, alone in a branch, after other branches, adjacent to another "
        "descriptor, with =/#/- in front, ring closures incl. %nn, bracket atoms, aromatic rings), stochastic objects, "
        "molecules and systems of all archetypes with whitespace / number-format variants; non-trivial = token whose "
        "descriptor is neither the first nor the last thing written or that has a branch, ring closure or bond symbol next "
        "to a descriptor, or an object with >=2 tokens; distinct = distinct printed string")
ASSUMPTIONS = ["the AST is ground truth by construction (a descriptor is written exactly like a leaf atom)",
               "RDKit parses the public SMILES fragment of a token; its atom order is the written order",
               "distribution family/parameters are read from the object's printed form"]

QUICK = {"tokens": 24000, "objects": 2400, "mols": 2400, "systems": 800}
THOROUGH = {"tokens": 400000, "objects": 30000, "mols": 30000, "systems": 8000}


@st.composite
def token_case(draw):
    n = draw(st.integers(0, 4))
    bds = []
    for _ in range(n):
        w = draw(st.sampled_from([None, None, 2.0, 0.0, 0.5, 10.1, (1.0, 0.0, 3.0), (0.0, 7.0)]))
        bds.append(BD(draw(st.sampled_from("$<>")), draw(st.sampled_from([None, None, 0, 1, 7, 12, 345])), w,
                      draw(st.sampled_from([1, 1, 1, 1, 2, 3])), draw(st.sampled_from(WSTYLES + ["traildot"])),
                      explicit_single=draw(st.integers(0, 9)) == 0))
    return draw(token(bds, max_atoms=9))


def plan(tier, seed):
    return [{} for _ in range(16)]


def _nontrivial_tok(t: Tok):
    fl = set(t.flags)
    return bool(fl & {"bd_branch_alone", "bd_inner", "bd_after_branch", "bd_adjacent", "multi_bond_bd", "sym_bd", "ring",
                      "bd_end_after_branch"}) and len(t.atts) > 0


def check_token(acc, t: Tok, ctx="token"):
    import gbigsmiles

    status, val = probe.guarded(gbigsmiles.SmilesToken, t.text_ext, 0, 0)
    hz = parsecmp.hazards_of(t)
    acc.case(t.text_ext if _nontrivial_tok(t) else None, labels=[f"tok:{f}" for f in t.flags] + [f"tok:n_desc={len(t.atts)}"])
    case = {"level": "token", "text": t.text_ext, "ast": t.to_json()}
    if status == "timeout":
        acc.violation("terminates", f"SmilesToken({t.text_ext!r}) did not return within the guard", case, {"hazards": hz})
        return
    if status == "raise":
        acc.violation("accepts", f"valid token {t.text_ext!r} rejected: {val!r}", case, {"hazards": hz, "error": type(val).__name__})
        return
    fields = parsecmp.cmp_token(t, val)
    for fld, msg, thz in fields:
        if fld == "_ref":
            acc.count("reference_token_not_sanitisable")
            continue
        acc.violation("token." + fld, msg, case, {"hazards": thz}, size=len(t.text_ext))


def check_stoch(acc, s: Stoch, label):
    import gbigsmiles

    text = s.text()
    status, val = probe.guarded(gbigsmiles.Stochastic, text, 0)
    hz = parsecmp.hazards_of(s)
    acc.case(text if len(s.tokens) >= 2 else None, labels=["obj:" + label])
    case = {"level": "stochastic", "text": text, "ast": s.to_json()}
    if status != "ok":
        acc.violation("accepts" if status == "raise" else "terminates", f"valid stochastic object {text!r}: {status} {val!r}", case,
                      {"hazards": hz, "error": type(val).__name__})
        return
    for fld, msg, thz in parsecmp.cmp_stoch(s, val):
        if fld == "_ref":
            continue
        acc.violation("stochastic." + fld, msg, case, {"hazards": thz}, size=len(text))


def check_mol(acc, m: Mol, with_mix=False):
    import gbigsmiles

    text = m.text(with_mix)
    status, val = probe.guarded(gbigsmiles.Molecule, text)
    hz = parsecmp.hazards_of(m)
    acc.case(text if len(m.tokens) >= 2 else None, labels=["mol:" + a for a in m.arche.split("+")])
    case = {"level": "molecule", "text": text, "ast": m.to_json()}
    form = sorted({a for a in m.arche.split("+") if a.startswith(("implicit", "explicit", "back"))})
    if status != "ok":
        acc.violation("accepts" if status == "raise" else "terminates", f"valid molecule {text!r}: {status} {val!r}", case,
                      {"hazards": hz, "error": type(val).__name__, "explicit_connector": "explicit_connector" in form})
        return
    for fld, msg, thz in parsecmp.cmp_mol(m, val, check_mix=with_mix):
        if fld == "_ref":
            continue
        acc.violation("molecule." + fld, msg, case, {"hazards": thz}, size=len(text))


def check_sys(acc, s: Sys):
    import gbigsmiles

    text = s.text()
    status, val = probe.guarded(gbigsmiles.System, text)
    hz = parsecmp.hazards_of(s)
    acc.case(text if len(s.mols) >= 2 else None, labels=[f"sys:n={len(s.mols)}"])
    case = {"level": "system", "text": text, "ast": s.to_json()}
    conn = any("explicit_connector" in m.arche for m in s.mols)
    if status != "ok":
        acc.violation("accepts" if status == "raise" else "terminates", f"valid system {text!r}: {status} {val!r}", case,
                      {"hazards": hz, "error": type(val).__name__, "explicit_connector": conn})
        return
    mols = getattr(val, "_molecules", None)
    if mols is None:
        acc.count("system_molecules_not_observable")
        return
    if len(mols) != len(s.mols):
        acc.violation("system.n_molecules", f"{len(mols)} molecules parsed, {len(s.mols)} written in {text!r}", case, {"hazards": hz})
        return
    for rm, om in zip(s.mols, mols):
        for fld, msg, thz in parsecmp.cmp_mol(rm, om, check_mix=True):
            if fld == "_ref":
                continue
            acc.violation("system." + fld, msg, case, {"hazards": thz}, size=len(text))


def run_shard(cfg):
    acc = Acc()
    n = THOROUGH if cfg["tier"] == "thorough" else QUICK
    per = {k: max(1, v // cfg["nshards"]) for k, v in n.items()}
    seed = cfg["seed"]

    def f_tok(t):
        check_token(acc, t)
        if acc.evaluations % 97 == 0:
            acc.sample({"token": t.text_ext, "atoms": t.atoms, "descriptor_atoms": [a for a, _ in t.atts]})
    drive(token_case(), f_tok, per["tokens"], seed)

    @st.composite
    def objs(draw):
        l = draw(st.sampled_from(["", "$", "<", ">"]))
        r = draw(st.sampled_from(["", "$"] if l in ("", "$") else ["", {"<": ">", ">": "<"}[l]]))
        if l == "" and r == "":
            r = draw(st.sampled_from(["", "<", ">", "$"]))
        return draw(stoch_obj(l, r, max_atoms=6))

    def f_obj(x):
        s, lab = x
        check_stoch(acc, s, lab)
        if acc.evaluations % 41 == 0:
            acc.sample({"stochastic": s.text()})
    drive(objs(), f_obj, per["objects"], seed + 1)

    def f_mol(m):
        check_mol(acc, m)
        if acc.evaluations % 41 == 0:
            acc.sample({"molecule": m.text(False), "archetype": m.arche})
    drive(molecules(max_blocks=3, max_atoms=6), f_mol, per["mols"], seed + 2)

    def f_sys(s):
        check_sys(acc, s)
        if acc.evaluations % 17 == 0:
            acc.sample({"system": s.text()})
    drive(systems(max_mols=3, max_blocks=2), f_sys, per["systems"], seed + 3)
    return acc


def shrink_candidates(case):
    """molecule-level cases: smaller molecules (the printer's output is re-derived from the reduced AST)"""
    if case.get("level") != "molecule" or "ast" not in case:
        return
    from ..shrink import mol_candidates
    for ast, text in mol_candidates(case["ast"], need_well_posed=False):
        yield {**case, "ast": ast, "text": text}


def replay(case, rec):
    acc = Acc()
    lvl = case["level"]
    if lvl == "token":
        check_token(acc, Tok.from_json(case["ast"]))
    elif lvl == "stochastic":
        check_stoch(acc, Stoch.from_json(case["ast"]), "replay")
    elif lvl == "molecule":
        check_mol(acc, Mol.from_json(case["ast"]))
    else:
        check_sys(acc, Sys.from_json(case["ast"]))
    return acc
