"""C18 - atom-graph generation yields trees of whole residues joined along graph edges.

Domain: Schulz-Zimm molecules of every archetype (multi-atom end groups, lists, aromatic / charged / bracket tokens,
several elements) x seeded generators.
Oracle: every generated atom names its stochastic node => token and atom-in-token; there must be a partition into
whole token copies (creation order as hint, verified; constraint search otherwise) with all atoms and internal bonds;
every bond between copies corresponds to a non-static edge of the stochastic atom graph between those nodes with the
same bond order; copies form a tree; one connected piece; to_mol() sanitises; a bounded number of random choices;
equal seeds give equal molecules.
"""
import networkx as nx
import numpy as np
from hypothesis import strategies as st

from .. import probe, refchem
from ..acc import Acc
from ..ast import Mol, Stoch, Tok
from ..hyp import drive
from ..strategies import molecules

ID = "C18"
LEVEL = "exploration"
RULE = ("generated Schulz-Zimm molecules of all archetypes (1-2 blocks, multi-atom end groups, lists, rings, bracket and charged atoms) x "
        "2 seeds each through AtomGraph.generate; non-trivial = a multi-atom end group was attached, or the molecule has >=2 elements; "
        "distinct = (molecule string, seed)")
ASSUMPTIONS = ["residue copies are found through the public node attribute 'stochastic_node' (creation order as a hint, verified; "
               "constraint search as fallback)",
               "liveness bound: 200000 random choices per generation"]

SIZES = {"quick": 4800, "thorough": 160000}


def plan(tier, seed):
    return [{} for _ in range(16)]


def token_tables(m: Mol):
    """node offset per token, (token, atom) per stochastic node, static bonds per token"""
    off, owner = [], []
    for t_i, t in enumerate(m.tokens):
        off.append(len(owner))
        owner += [(t_i, k) for k in range(len(t.atoms))]
    return off, owner


def partition(G, owner, m: Mol):
    """list of copies (dict atom-in-token -> generated node) or (None, reason)"""
    nodes = sorted(G.nodes())
    lab = {}
    for n in nodes:
        sn = G.nodes[n].get("stochastic_node")
        if sn is None or sn < 0 or sn >= len(owner):
            return None, f"node {n} has no valid stochastic_node"
        lab[n] = owner[sn]
    toks = m.tokens
    static = []
    for t in toks:
        fm = refchem.fragment_mol(t, sanitize=True)
        static.append({(min(b.GetBeginAtomIdx(), b.GetEndAtomIdx()), max(b.GetBeginAtomIdx(), b.GetEndAtomIdx())): int(b.GetBondType()) for b in fm.GetBonds()})

    def verify(copy_nodes):
        t_i = lab[copy_nodes[0]][0]
        idx = {}
        for n in copy_nodes:
            if lab[n][0] != t_i or lab[n][1] in idx:
                return None
            idx[lab[n][1]] = n
        if len(idx) != len(toks[t_i].atoms):
            return None
        for (i, j), bt in static[t_i].items():
            if not G.has_edge(idx[i], idx[j]) or int(G.edges[idx[i], idx[j]].get("bond_type", -1)) != bt:
                return None
        return idx

    # hint: consecutive runs in creation order
    copies, pos, ok = [], 0, True
    while pos < len(nodes):
        t_i = lab[nodes[pos]][0]
        size = len(toks[t_i].atoms)
        run = nodes[pos: pos + size]
        v = verify(run) if len(run) == size else None
        if v is None:
            ok = False
            break
        copies.append((t_i, v))
        pos += size
    if ok:
        return copies, ""
    # fallback: grow copies along edges that can be static, with backtracking on ambiguous neighbours
    unassigned = set(nodes)
    copies = []

    def grow(start):
        t_i = lab[start][0]
        need = set(range(len(toks[t_i].atoms)))
        best = [None]

        def rec(idx):
            if best[0] is not None:
                return
            if len(idx) == len(need):
                for (i, j), bt in static[t_i].items():
                    if not G.has_edge(idx[i], idx[j]) or int(G.edges[idx[i], idx[j]].get("bond_type", -1)) != bt:
                        return
                best[0] = dict(idx)
                return
            # pick a static bond from an assigned to an unassigned atom
            for (i, j), bt in static[t_i].items():
                for a, b in ((i, j), (j, i)):
                    if a in idx and b not in idx:
                        cands = [x for x in G.neighbors(idx[a]) if x in unassigned and x not in idx.values() and lab[x] == (t_i, b)
                                 and int(G.edges[idx[a], x].get("bond_type", -1)) == bt]
                        for c in cands:
                            idx[b] = c
                            rec(idx)
                            del idx[b]
                            if best[0] is not None:
                                return
                        return
        rec({lab[start][1]: start})
        return t_i, best[0]

    for n in nodes:
        if n not in unassigned:
            continue
        t_i, v = grow(n)
        if v is None:
            return None, (f"atom {n} (atom {lab[n][1]} of token {toks[lab[n][0]].text_ext}) is not part of a whole copy of its token "
                          f"({len(toks[lab[n][0]].atoms)} atoms with all internal bonds)")
        copies.append((t_i, v))
        unassigned -= set(v.values())
    return copies, ""


def check(acc, m: Mol, seed):
    import gbigsmiles
    from gbigsmiles import AtomGraph
    from rdkit import Chem

    text = m.text(False)
    status, obj = probe.guarded(gbigsmiles.Molecule, text)
    if status != "ok":
        acc.count("parse_dropped")
        return
    status, sag = probe.guarded(lambda: obj.gen_stochastic_atom_graph(expect_schulz_zimm_distribution=True), seconds=60)
    if status != "ok":
        acc.count("atom_graph_not_built_dropped(C17's business)")
        return
    off, owner = token_tables(m)
    case = {"text": text, "ast": m.to_json(), "seed": seed}
    multi_end = any(isinstance(e, Stoch) and any(len(t.atoms) > 1 for t in e.end) for e in m.elements)
    charged = any(("+" in a or "-" in a) for t in m.tokens for a in t.atoms)
    aromatic = any(a in ("c", "n", "s", "o") for t in m.tokens for a in t.atoms)
    lists = any(b.transitions for t in m.tokens for b in t.bds)
    sig0 = {"charged": charged, "aromatic": aromatic}

    def run(seed_):
        rng = probe.CountingRNG(seed_)
        rng.limit = 200000
        ag = AtomGraph(sag, rng=rng)
        try:
            st_, val = probe.guarded(ag.generate, seconds=120)
        except probe.ChoiceBudget:
            return "budget", None, ag
        return st_, val, ag

    st_, val, ag = run(seed)
    labels = ["arche:" + a for a in m.arche.split("+")] + [f"multi_atom_end:{multi_end}", f"charged:{charged}", f"aromatic:{aromatic}", f"lists:{lists}"]
    if st_ == "raise" and isinstance(val, RuntimeError) and "single source node" in str(val):
        acc.case(None, labels=labels + ["no_start_node"])
        return
    acc.case((text, seed) if (multi_end or len(m.elements) >= 2) else None, labels=labels)
    if st_ == "budget":
        acc.violation("terminates", f"AtomGraph.generate of {text!r} made more than 200000 random choices", case, sig0, size=len(text))
        return
    if st_ == "timeout":
        acc.count("wall_clock_guard(inconclusive)")
        return
    if st_ == "raise":
        acc.violation("generate_raises", f"AtomGraph.generate of {text!r} (seed {seed}) raised {val!r}", case, {**sig0, "error": type(val).__name__}, size=len(text))
        return
    G = ag.graph
    if G.number_of_nodes() == 0:
        acc.violation("empty", f"AtomGraph.generate of {text!r} produced no atom", case, sig0, size=len(text))
        return
    # whole copies
    copies, why = partition(G, owner, m)
    if copies is None:
        acc.violation("whole_residues", f"{text!r} (seed {seed}): {why}", case, {**sig0, "multi_atom_end": multi_end}, size=len(text))
    else:
        node_copy = {}
        for ci, (t_i, idx) in enumerate(copies):
            for k, n in idx.items():
                node_copy[n] = ci
        # element / atom identity of every copy
        for ci, (t_i, idx) in enumerate(copies):
            fm = refchem.fragment_mol(m.tokens[t_i], sanitize=False)
            for k, n in idx.items():
                if G.nodes[n].get("atomic_num") != fm.GetAtomWithIdx(k).GetAtomicNum():
                    acc.violation("residue_atoms", f"{text!r}: copy {ci} of {m.tokens[t_i].text_ext}: atom {k} has atomic number {G.nodes[n].get('atomic_num')}", case, sig0, size=len(text))
                    break
        # bonds between copies follow non-static edges of the stochastic atom graph
        S = sag.graph
        inter = nx.MultiGraph()
        inter.add_nodes_from(range(len(copies)))
        for a, b, data in G.edges(data=True):
            ca, cb = node_copy[a], node_copy[b]
            sa, sb = G.nodes[a]["stochastic_node"], G.nodes[b]["stochastic_node"]
            bt = int(data.get("bond_type", -1))
            if ca == cb:
                t_i, idx = copies[ca]
                continue
            inter.add_edge(ca, cb)
            okk = False
            for u, v in ((sa, sb), (sb, sa)):
                if S.has_edge(u, v):
                    for key, ed in S.get_edge_data(u, v).items():
                        nonstatic = any(ed.get(k + "_weight", 0) not in (0, 0.0) for k in ("stochastic", "termination", "transition"))
                        if nonstatic and int(ed.get("bond_type", -2)) == bt:
                            okk = True
            if not okk:
                acc.violation("bond_follows_edge", f"{text!r} (seed {seed}): bond of type {bt} between a copy of {m.tokens[copies[ca][0]].text_ext} and a copy of "
                              f"{m.tokens[copies[cb][0]].text_ext} (stochastic nodes {sa}, {sb}) has no non-static edge of that bond order in the stochastic atom graph",
                              case, sig0, size=len(text))
                break
        # (observation only) attachment atoms that carry more bonds to other copies than they have bond descriptors
        used = {}
        for a, b, data in G.edges(data=True):
            if node_copy[a] != node_copy[b]:
                used[a] = used.get(a, 0) + 1
                used[b] = used.get(b, 0) + 1
        for ci, (t_i, idx) in enumerate(copies):
            inv = {n: k for k, n in idx.items()}
            for n, cnt in ((n, used.get(n, 0)) for n in idx.values()):
                have = sum(1 for a_, d_ in m.tokens[t_i].atts if a_ == inv[n])
                if cnt > have:
                    # not demanded by the property as stated (the bonds still follow graph edges and the residues still form a
                    # tree): recorded as an observation, the 'sanitises' oracle decides whether the molecule is acceptable
                    acc.count("observation:attachment_atom_with_more_inter_residue_bonds_than_descriptors")
                    break
            else:
                continue
            break
        if inter.number_of_edges() != len(copies) - 1 or (len(copies) > 0 and not nx.is_connected(nx.Graph(inter))):
            acc.violation("tree_of_residues", f"{text!r} (seed {seed}): {len(copies)} residue copies joined by {inter.number_of_edges()} bonds"
                          f"{'' if nx.is_connected(nx.Graph(inter)) else ', not connected'}", case, sig0, size=len(text))
    if not nx.is_connected(G):
        acc.violation("connected", f"{text!r} (seed {seed}): generated graph is not connected", case, sig0, size=len(text))
    # sanitisable
    st2, mol = probe.guarded(ag.to_mol, seconds=60)
    smi = None
    if st2 != "ok":
        acc.violation("sanitises", f"{text!r} (seed {seed}): to_mol() raised {mol!r}", case, {**sig0, "error": type(mol).__name__ if st2 == "raise" else st2}, size=len(text))
    else:
        smi = Chem.MolToSmiles(mol)
    # determinism
    st3, val3, ag3 = run(seed)
    if st3 == "ok":
        st4, mol3 = probe.guarded(ag3.to_mol, seconds=60)
        a = smi if smi is not None else sorted((d.get("stochastic_node"), G.degree(n)) for n, d in G.nodes(data=True))
        if st4 == "ok" and smi is not None:
            b = Chem.MolToSmiles(mol3)
        else:
            G3 = ag3.graph
            b = sorted((d.get("stochastic_node"), G3.degree(n)) for n, d in G3.nodes(data=True)) if smi is None else None
        if b is not None and a != b:
            acc.violation("equal_seeds", f"{text!r}: two generations with seed {seed} differ: {str(a)[:120]} vs {str(b)[:120]}", case, sig0, size=len(text))
    if acc.evaluations % 23 == 0:
        acc.sample({"molecule": text, "seed": seed, "atoms": G.number_of_nodes(), "copies": None if copies is None else len(copies), "smiles": smi})


def run_shard(cfg):
    acc = Acc()
    n = max(1, SIZES[cfg["tier"]] // cfg["nshards"])

    @st.composite
    def case(draw):
        m = draw(molecules(max_blocks=2, max_atoms=4, small=True, families=["schulz_zimm"], plain_ok=False))
        return m, draw(st.integers(0, 2**31 - 1))
    drive(case(), lambda x: check(acc, x[0], x[1]), n, cfg["seed"])
    return acc


def shrink_candidates(case):
    """smaller molecules of the same kind (fewer units / end groups, lists and weights removed), still inside the domain"""
    from ..shrink import mol_candidates
    for ast, text in mol_candidates(case["ast"]):
        yield {**case, "ast": ast, "text": text}


def replay(case, rec):
    acc = Acc()
    check(acc, Mol.from_json(case["ast"]), case["seed"])
    return acc
