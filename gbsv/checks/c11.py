"""C11 - each molecular-weight distribution is one coherent probability law.

Domain: (family, parameters) drawn by Hypothesis inside the documented parameter region + a fixed grid.
Oracles: (i) point probabilities >= 0 and normalised, (ii) interval probability == sum/integral of the object's own
point probabilities == reference F(b)-F(a), (iii) draws finite, in the support, following the reference law
(exact binomial on quantile bins, re-confirmed) with the documented mean, (iv) text form round-trips and unknown
names are rejected.
"""
import math

import numpy as np
from hypothesis import strategies as st
from scipy import integrate

from .. import probe, refdist, stats as gst
from ..acc import Acc
from ..hyp import drive

ID = "C11"
LEVEL = "exploration"
RULE = ("(family, parameters) from a fixed grid and Hypothesis draws inside the documented region (gauss sigma 0.5..mu, uniform "
        "integer bounds, schulz_zimm 1.05<=Mw/Mn<=2 and 50<=Mn<=5000, log_normal 1.02<=D<=3, poisson 1..2000, flory_schulz "
        "0.002<=a<=0.9); per case: normalisation, 12 interval-coherence queries, N draws (support, binned goodness of fit, mean), "
        "every quantile of a scripted uniform stream (212 / 2012 grid points incl. both tails to 1e-7), text round-trip; plus a list of unknown / look-alike distribution names; non-trivial = case in which >=3 sub-oracles "
        "ran; distinct = (family, parameters)")
ASSUMPTIONS = ["reference laws: norm, uniform, gamma(z, Mn/z) with z=Mn/(Mw-Mn), lognorm(sqrt(ln D), Mn/sqrt(D)), poisson, "
               "F(k)=1-(1-a)^k(1+ak) (scipy closed forms trusted)",
               "schulz_zimm is the gamma density sampled on the integers: normalisation tolerance 1/Mn, interval tolerance 2*max density",
               "statistical sub-oracle: exact binomial per bin, alpha=1e-10 Bonferroni over bins and cases, rejection must repeat with an "
               "independent seed and twice the sample"]

SIZES = {"quick": {"cases": 96, "draws": 1500, "quantiles": 200}, "thorough": {"cases": 480, "draws": 8000, "quantiles": 2000}}
ALPHA = 1e-10
UNKNOWN = ["normal(100, 10)", "gaus(100, 10)", "gaussian(100, 10)", "gauss2(100, 10)", "uniformly(10, 20)", "poissonian(5)",
           "schulz_zimmer(1500, 1000)", "log_normal10(1000, 1.2)", "flory_schulz_zimm(0.1)", "weibull(1, 2)", "GAUSS(100, 10)",
           "foo(1, 2)", "lognormal(1000, 1.2)", "schulzzimm(1500,1000)", "flory(0.1)", "xgauss(100, 10)", "uniform_(1,2)"]
GRID = [("gauss", (100.0, 10.0)), ("gauss", (10.0, 20.0)), ("gauss", (5000.0, 150.0)), ("uniform", (12.0, 72.0)), ("uniform", (500.0, 600.0)),
        ("schulz_zimm", (1500.0, 1000.0)), ("schulz_zimm", (5000.0, 4500.0)), ("schulz_zimm", (300.0, 200.0)), ("schulz_zimm", (1000.0, 900.0)),
        ("schulz_zimm", (200.0, 100.0)), ("schulz_zimm", (1000.0, 500.0)), ("schulz_zimm", (408.0, 400.0)),
        ("log_normal", (50.0, 1.1)), ("log_normal", (1000.0, 1.8)), ("poisson", (65.0,)), ("poisson", (900.0,)), ("poisson", (3.0,)),
        ("flory_schulz", (0.1,)), ("flory_schulz", (0.01,)), ("flory_schulz", (0.02,)), ("flory_schulz", (0.0011,)), ("flory_schulz", (0.5,))]


def plan(tier, seed):
    return [{} for _ in range(16)]


@st.composite
def dist_case(draw):
    fam = draw(st.sampled_from(["gauss", "uniform", "schulz_zimm", "log_normal", "poisson", "flory_schulz"]))
    r3 = lambda x: float(f"{x:.4g}")  # noqa: E731
    if fam == "gauss":
        mu = r3(draw(st.floats(10, 1e5)))
        return fam, (mu, r3(draw(st.floats(0.5, mu))))
    if fam == "uniform":
        lo = draw(st.integers(0, 5000))
        return fam, (float(lo), float(lo + draw(st.integers(1, 3000))))
    if fam == "schulz_zimm":
        mn = r3(draw(st.floats(50, 5000)))
        ratio = draw(st.one_of(st.floats(1.05, 2.0), st.sampled_from([2.0, 1.5, 1.25, 1.1, 1.05])))
        # rounding to 4 digits must not push Mw/Mn above 2 (z < 1 is outside the documented region)
        return fam, (min(r3(mn * ratio), 2.0 * mn), mn)
    if fam == "log_normal":
        return fam, (r3(draw(st.floats(20, 1e4))), r3(draw(st.floats(1.02, 3.0))))
    if fam == "poisson":
        return fam, (r3(draw(st.floats(1, 2000))),)
    return fam, (r3(draw(st.floats(0.002, 0.9))),)


def text_of(fam, params):
    return f"{fam}(" + ", ".join(repr(p) if p != int(p) or fam not in ("uniform",) else str(int(p)) for p in params) + ")"


def mk_interval(a, b):
    from gbigsmiles.mol_prob import RememberAdd
    r = RememberAdd(a)
    r += (b - a)
    return r


def point(d, x):
    return float(d.prob_mw(x))


def quantile_grid(n):
    """fine grid over (0, 1) with both tails: 1e-7 ... 1 - 1e-7"""
    tails = [1e-7, 1e-6, 1e-5, 1e-4, 1e-3, 3e-3]
    mid = [(i + 0.5) / n for i in range(n)]
    return sorted(set(tails + [1 - t for t in tails] + mid))


def check_quantiles(acc, d, ref, txt, case, sig, nq):
    """(iii-b) every quantile of the draw: a scripted uniform stream (QuantileRNG) makes the draw the q-quantile of whatever
    law the sampler realises; the reference law must agree:  F_ref(x) >= q > F_ref(x^-)  (discrete), |F_ref(x) - q| small
    (continuous); and the object's own interval probability of (lo, x] must be coherent with q."""
    fam = ref.family
    if fam == "gauss" and ref.d is None:
        return False
    lo, hi = ref.support_lo(), ref.support_hi()
    # the Schulz-Zimm law is the documented density sampled on the integers: its total is 1 + O(1/Mn) (same slack as in
    # the normalisation oracle); the other discrete laws are exact
    dq = (abs(1.0 - ref.int_total()) + 1e-9) if fam == "schulz_zimm" else 1e-9
    F = ref.cdf_int if fam == "schulz_zimm" else ref.cdf
    n_obs = 0
    points = []
    for q in quantile_grid(nq):
        rng = probe.QuantileRNG(q)
        try:
            with probe.alarm(20):
                x = float(d.draw_mw(rng))
        except probe.Timeout:
            acc.violation("quantile_raises", f"{txt}: the draw at quantile {q!r} of the uniform stream did not return within 20 s", case, {**sig, "error": "Timeout"})
            return True
        except Exception as exc:  # noqa: BLE001
            acc.violation("quantile_raises", f"{txt}: the draw at quantile {q!r} of the uniform stream raised {exc!r}", case, {**sig, "error": type(exc).__name__})
            return True
        if not rng.used or rng.unscripted:
            acc.count("quantile_stream_not_observable")  # the sampler uses a primitive the scripted stream does not know
            return False
        n_obs += 1
        if math.isfinite(x) and ref.discrete and abs(x - round(x)) <= 1e-9 and ref.pmf(int(round(x))) <= 0.0:
            acc.violation("quantile_support", f"{txt}: the draw at quantile {q!r} is {x!r}, a value to which the documented law gives probability 0", case, sig)
            return True
        if not math.isfinite(x) or x < lo - 1e-9 or x > hi + 1e-9 or (ref.discrete and abs(x - round(x)) > 1e-9):
            acc.violation("quantile_support", f"{txt}: the draw at quantile {q!r} is {x!r}: not finite / outside the support [{lo}, {hi}]", case, sig)
            return True
        points.append((q, x))
    # the law of the draw: the scripted stream makes the draw a deterministic function x(q) of the uniform variate.  A sampler may
    # use the variate either way round (ppf(u) or ppf(1 - u)): both push the uniform law forward to the documented one.  The
    # pointwise relation is required in ONE orientation for all grid points.
    def bad_point(q, x, flip):
        qq = 1.0 - q if flip else q
        if ref.discrete:
            up, dn = F(x), F(x - 1)
            if fam == "schulz_zimm" and qq > 1 - 2 * dq and up > 1 - 1e-12:
                return None  # q above the un-normalised total: within the stated slack
            if up < qq - dq or dn > qq + dq:
                return (f"F({x!r})={up!r}, F({x - 1!r})={dn!r} (need F(x) >= q > F(x-1), tolerance {dq:.3g})")
            return None
        up = F(x)
        tol = 1e-6 + 1e-6 * min(qq, 1 - qq)
        if abs(up - qq) > tol:
            return f"F({x!r})={up!r}"
        return None
    fails = {False: [(q, x, bad_point(q, x, False)) for q, x in points], True: [(q, x, bad_point(q, x, True)) for q, x in points]}
    nbad = {k: sum(1 for _, _, m in v if m) for k, v in fails.items()}
    if nbad[False] and nbad[True]:
        flip = nbad[True] < nbad[False]
        q, x, m = next(t for t in fails[flip] if t[2])
        acc.violation("quantile_law", f"{txt}: the draw at quantile q={q!r} of the uniform stream{' (used as 1 - q)' if flip else ''} is {x!r}, but the "
                      f"documented law has {m}; {nbad[flip]} of {len(points)} grid points disagree (the other orientation: {nbad[not flip]})", case, sig)
        return True
    if nbad[False]:
        acc.count("quantile_stream_used_as_one_minus_u")
    if fam == "schulz_zimm":
        top = sum(1 for q, x in points if F(x) > 1 - 1e-12 and max(q, 1 - q) > 1 - 2 * dq)
        if top:
            acc.count("schulz_zimm_top_quantile_beyond_total_mass", top)
    acc.count("scripted_quantile_draws", n_obs)
    return n_obs > 0


def check_case(acc, fam, params, ndraw, seed, nq=200):
    import gbigsmiles

    txt = text_of(fam, params)
    case = {"family": fam, "params": list(params), "text": txt, "seed": seed}
    sig = {"family": fam}
    ran = 0
    try:
        d = gbigsmiles.distribution.get_distribution(txt)
    except Exception as exc:  # noqa: BLE001
        acc.case(None, labels=["fam:" + fam])
        acc.violation("construct", f"get_distribution({txt!r}) raised {exc!r}", case, sig)
        return
    ref = refdist.Ref(fam, params)
    # ---- (iv) text form
    try:
        s1 = d.generate_string(True)
        d2 = gbigsmiles.distribution.get_distribution(s1)
        s2 = d2.generate_string(True)
        from ..parsecmp import dist_facts
        f1 = dist_facts(d)
        exp = tuple(float(int(p)) if fam == "uniform" else float(p) for p in params)
        if s1 != s2:
            acc.violation("text_roundtrip", f"{txt}: printed {s1!r}, re-read prints {s2!r}", case, sig)
        if f1 is None or f1[0] != fam or len(f1[1]) != len(exp) or any(abs(a - b) > 1e-9 * max(1, abs(b)) for a, b in zip(f1[1], exp)):
            acc.violation("text_parameters", f"{txt}: printed form {s1!r} does not reproduce the parameters {exp}", case, sig)
        if d.generate_string(False) != "":
            acc.violation("text_noext", f"{txt}: generate_string(False) is {d.generate_string(False)!r}", case, sig)
        ran += 1
    except Exception as exc:  # noqa: BLE001
        acc.violation("text_roundtrip", f"{txt}: text round trip raised {exc!r}", case, sig)
    # ---- (i) non-negative, normalised
    lo_q, hi_q = _bulk(ref, 1e-12)
    try:
        if ref.discrete:
            ks = np.arange(max(0, int(math.floor(lo_q)) - 2), int(math.ceil(hi_q)) + 3)
            if len(ks) > 400000:
                ks = None
            if ks is not None:
                pm = np.array([point(d, int(k)) for k in ks]) if len(ks) < 4000 else _vector_pmf(d, ks)
                if np.any(pm < 0) or np.any(~np.isfinite(pm)):
                    acc.violation("nonnegative", f"{txt}: point probability negative / not finite at k={int(ks[np.argmax((pm < 0) | ~np.isfinite(pm))])}", case, sig)
                tot = float(pm.sum())
                # schulz_zimm is the documented density sampled on the integers: its total is 1 + a discretisation error that is
                # computed from the documented formula on the same grid (not bounded by a loose 1/Mn)
                want_tot = float(sum(ref.pmf(int(k)) for k in ks)) if fam == "schulz_zimm" else 1.0
                tol = 1e-7 if fam == "schulz_zimm" else 1e-8
                if abs(tot - want_tot) > tol:
                    acc.violation("normalised", f"{txt}: point probabilities sum to {tot!r} over the support, the documented law gives {want_tot!r} (tolerance {tol:.3g})", case, sig)
                # point by point against the documented formula (coarse grid of <= 600 points incl. both ends)
                step = max(1, len(ks) // 600)
                for j in list(range(0, len(ks), step)) + [0, 1, 2, len(ks) - 1]:
                    a_, b_ = float(pm[j]), ref.pmf(int(ks[j]))
                    if abs(a_ - b_) > 1e-9 + 1e-7 * abs(b_):
                        acc.violation("point_vs_reference", f"{txt}: point probability at {int(ks[j])} is {a_!r}, the documented law gives {b_!r}", case, sig)
                        break
                ran += 1
        else:
            pts = sorted({ref.mean, max(lo_q, ref.mean - ref.std), ref.mean + ref.std})
            val, err = integrate.quad(lambda x: point(d, x), lo_q, hi_q, points=[p for p in pts if lo_q < p < hi_q], limit=400)
            xs = np.linspace(lo_q, hi_q, 257)
            pv = np.array([point(d, float(x)) for x in xs])
            if np.any(pv < 0) or np.any(~np.isfinite(pv)):
                acc.violation("nonnegative", f"{txt}: density negative / not finite at {float(xs[np.argmax((pv < 0) | ~np.isfinite(pv))])}", case, sig)
            if abs(val - 1.0) > 1e-6 + 10 * err:
                acc.violation("normalised", f"{txt}: density integrates to {val!r} (+-{err:.2g}) over [{lo_q:.6g}, {hi_q:.6g}]", case, sig)
            ran += 1
    except Exception as exc:  # noqa: BLE001
        acc.violation("point_raises", f"{txt}: point probability raised {exc!r}", case, sig)
    # ---- (ii) interval coherence
    rng = np.random.default_rng(seed)
    qlo, qhi = _bulk(ref, 1e-4)
    try:
        for _ in range(12):
            a, b = sorted(rng.uniform(qlo, qhi, 2))
            if ref.discrete and rng.integers(0, 2):
                a, b = float(math.floor(a)), float(math.floor(b))
            if b - a < 1e-9:
                continue
            got = float(d.prob_mw(mk_interval(a, b)))
            want = ref.cdf(b) - ref.cdf(a)
            if ref.discrete:
                own = sum(point(d, k) for k in range(int(math.floor(a)) + 1, int(math.floor(b)) + 1)) if b - a < 20000 else None
            else:
                own, _ = integrate.quad(lambda x: point(d, x), a, b, limit=200)
            delta = 1e-7
            if fam == "schulz_zimm":
                delta = 2.5 * max(ref.pdf(max(1e-9, (ref.z - 1) / ref.z * ref.mn if ref.z > 1 else 1.0)), ref.pdf(max(1.0, a)), ref.pdf(b)) + 1e-7
            if not (got >= -1e-12):
                acc.violation("interval_negative", f"{txt}: probability of ({a}, {b}] is {got}", case, sig)
            # the integer-sampled Schulz-Zimm density sums to 1 + O(1/Mn); scipy clips its cumulative sum at 1, so the upper tail
            # is incoherent by at most that excess - same slack as for the normalisation
            slack = (1.0 / ref.mn) if fam == "schulz_zimm" else 0.0
            if own is not None and abs(got - own) > 1e-6 + slack:
                acc.violation("interval_vs_points", f"{txt}: prob_mw(({a}, {b}]) = {got!r} but its own point probabilities give {own!r}", case, sig)
            if abs(got - want) > delta:
                acc.violation("interval_vs_reference", f"{txt}: prob_mw(({a}, {b}]) = {got!r}, documented law gives {want!r} (tolerance {delta:.3g})", case, sig)
        ran += 1
    except Exception as exc:  # noqa: BLE001
        acc.violation("interval_raises", f"{txt}: interval probability raised {exc!r}", case, sig)
    # ---- (iii) draws
    res = _draws(d, ref, ndraw, seed)
    if res["raised"]:
        acc.violation("draw_raises", f"{txt}: {res['raised']} of {ndraw} draws raised, first: {res['first_exc']}", case, {**sig, "error": res["first_type"]})
    if res["bad"]:
        acc.violation("draw_support", f"{txt}: draw {res['bad'][0]!r} is not finite / outside the support [{ref.support_lo()}, {ref.support_hi()}]", case, sig)
    if res["n"] >= 200:
        rej, detail = _gof(res["x"], ref)
        if rej:
            res2 = _draws(d, ref, 2 * ndraw, seed + 7919)
            rej2, detail2 = _gof(res2["x"], ref) if res2["n"] >= 200 else (False, "")
            if rej2:
                acc.violation("draw_law", f"{txt}: draws do not follow the documented law: {detail}; repeated with an independent seed: {detail2}", case, sig)
            else:
                acc.count("gof_rejection_not_confirmed")
        m = float(np.mean(res["x"]))
        if ref.std > 0 and abs(m - ref.mean) > 8 * ref.std / math.sqrt(res["n"]) + (0.6 if fam == "schulz_zimm" else 1e-9):
            acc.violation("draw_mean", f"{txt}: sample mean {m:.6g} of {res['n']} draws, documented mean {ref.mean:.6g} (8 sigma/sqrt(N) = {8 * ref.std / math.sqrt(res['n']):.3g})", case, sig)
        ran += 1
    if check_quantiles(acc, d, ref, txt, case, sig, nq):
        ran += 1
    acc.case((fam, tuple(params)) if ran >= 3 else None, labels=["fam:" + fam, f"suboracles:{ran}"])
    if acc.evaluations % 2 == 0:
        acc.sample({"distribution": txt, "sub_oracles_run": ran, "draws": res["n"], "sample_mean": float(np.mean(res["x"])) if res["n"] else None,
                    "documented_mean": ref.mean})


def _vector_pmf(d, ks):
    # large supports: use the scipy object behind the class when it vectorises, else sample the grid coarsely
    out = np.empty(len(ks))
    for i, k in enumerate(ks):
        out[i] = point(d, int(k))
    return out


def _bulk(ref, eps):
    f = ref.family
    if f == "flory_schulz":
        a = ref.a
        k = 1
        hi = int(math.ceil((-math.log(eps) + 8) / a)) + 5
        return 1.0, float(hi)
    if f == "gauss" and ref.d is None:
        return ref.params[0] - 1, ref.params[0] + 1
    lo, hi = ref.d.ppf(eps), ref.d.ppf(1 - eps)
    if f == "uniform":
        lo, hi = ref.support_lo(), ref.support_hi()
    return float(lo), float(hi)


def _draws(d, ref, n, seed):
    rng = probe.CountingRNG(seed)
    xs, bad = [], []
    raised, first_exc, first_type = 0, None, None
    lo, hi = ref.support_lo(), ref.support_hi()
    for _ in range(n):
        try:
            with probe.alarm(20):
                v = d.draw_mw(rng)
        except probe.Timeout:
            raised += 1
            first_exc = first_exc or "no return within 20 s"
            first_type = first_type or "Timeout"
            continue
        except Exception as exc:  # noqa: BLE001
            raised += 1
            first_exc = first_exc or repr(exc)
            first_type = first_type or type(exc).__name__
            continue
        v = float(v)
        if not math.isfinite(v) or v < lo - 1e-9 or v > hi + 1e-9 or (ref.discrete and abs(v - round(v)) > 1e-9):
            bad.append(v)
        elif ref.discrete and ref.pmf(int(round(v))) <= 0.0:
            bad.append(v)  # a value to which the documented law gives probability 0
        else:
            xs.append(v)
    return {"x": np.array(xs), "n": len(xs), "bad": bad, "raised": raised, "first_exc": first_exc, "first_type": first_type}


def _gof(x, ref, nbins=10):
    """quantile bins of the reference law; exact binomial per bin"""
    n = len(x)
    if ref.family == "gauss" and ref.d is None:
        return False, ""
    lo, hi = _bulk(ref, 1e-9)
    if ref.discrete:
        # integer edges at reference quantiles
        edges = []
        k = int(math.floor(lo)) - 1
        grid = np.arange(max(-1, k), int(math.ceil(hi)) + 2)
        cdf = np.array([ref.cdf(g) for g in grid]) if len(grid) < 200000 else None
        if cdf is None:
            return False, ""
        targets = [(i + 1) / nbins for i in range(nbins - 1)]
        for t in targets:
            j = int(np.searchsorted(cdf, t))
            edges.append(float(grid[min(j, len(grid) - 1)]))
        edges = sorted(set(edges))
    else:
        edges = [float(ref.d.ppf((i + 1) / nbins)) for i in range(nbins - 1)]
    bounds = [-math.inf] + edges + [math.inf]
    probs, counts = [], []
    for a, b in zip(bounds[:-1], bounds[1:]):
        pa = 0.0 if a == -math.inf else ref.cdf(a)
        pb = 1.0 if b == math.inf else ref.cdf(b)
        probs.append(pb - pa)
        counts.append(int(np.sum((x > a) & (x <= b))))
    delta = 0.0
    if ref.family == "schulz_zimm":
        delta = 2.5 * ref.pdf(max(1.0, (ref.z - 1) / ref.z * ref.mn if ref.z > 1 else 1.0)) + 1.0 / ref.mn
    rej = gst.reject_bins(counts, n, probs, ALPHA / 2000.0, delta)
    if rej:
        i, k, p, t = rej[0]
        return True, f"bin ({bounds[i]:.6g}, {bounds[i + 1]:.6g}] holds {k}/{n} draws, reference probability {p:.5f} (tail {t:.2e})"
    return False, ""


def run_shard(cfg):
    import gbigsmiles

    acc = Acc()
    sz = SIZES[cfg["tier"]]
    n = max(1, sz["cases"] // cfg["nshards"])
    # fixed grid, spread over the shards
    for i, (fam, params) in enumerate(GRID):
        if i % cfg["nshards"] == cfg["shard"]:
            check_case(acc, fam, params, sz["draws"], cfg["seed"] % 100000 + i, sz["quantiles"])
    drive(st.tuples(dist_case(), st.integers(0, 2**31 - 1)), lambda x: check_case(acc, x[0][0], x[0][1], sz["draws"], x[1], sz["quantiles"]), n, cfg["seed"])
    if cfg["shard"] == 0:
        for name in UNKNOWN:
            acc.case(("unknown", name), labels=["unknown_name"])
            try:
                d = gbigsmiles.distribution.get_distribution(name)
            except Exception:  # noqa: BLE001
                continue
            acc.violation("unknown_name_accepted", f"get_distribution({name!r}) returned {type(d).__name__} printing {d.generate_string(True)!r}",
                          {"family": "unknown", "text": name, "params": [], "seed": 0}, {"family": "unknown"})
    return acc


def replay(case, rec):
    import gbigsmiles
    acc = Acc()
    if case["family"] == "unknown":
        acc.case(("unknown",))
        try:
            gbigsmiles.distribution.get_distribution(case["text"])
            acc.violation("unknown_name_accepted", f"{case['text']!r} accepted", case, {})
        except Exception:  # noqa: BLE001
            pass
        return acc
    check_case(acc, case["family"], tuple(case["params"]), 3000, case["seed"], 2000)
    return acc
