"""Common driver of the generation checks C04-C07: one generation, four oracles; each check reports its own."""
import numpy as np
from hypothesis import strategies as st

from .. import gen, genoracle, probe, reflaw, refchem
from ..acc import Acc
from ..ast import Mol, Stoch, Tok
from ..hyp import drive
from ..strategies import molecules

AVOID = frozenset()

SIZES = {
    "quick": {"random": 900, "instances": 36},
    "thorough": {"random": 40000, "instances": 1500},
}

NONTRIVIAL = {
    "C04": "a generation with >=3 residues and >=2 distinct descriptor types (symbol,id,order)",
    "C05": "a generation with >=3 residues where some token has a ring or a bracket atom",
    "C06": "a molecule with >=2 elements, or a branching repeat unit, or two end-group types",
    "C07": "a stochastic object that added >=2 units with the target within one unit mass of a cumulative mass",
}


def plan(tier, seed):
    return [{} for _ in range(16)]


@st.composite
def gen_case(draw, small=True):
    m = draw(molecules(avoid=AVOID, max_blocks=2, max_atoms=5, small=small))
    seed = draw(st.integers(0, 2**31 - 1))
    forced = draw(st.integers(0, 3)) > 0
    fr = [(draw(st.integers(0, 4)), draw(st.sampled_from([-0.5, -1e-7, 1e-7, 0.5, 0.25])), draw(st.integers(0, 3)), draw(st.integers(0, 9)))
          for _ in range(3)]
    return m, seed, forced, fr


def targets_for(m: Mol, fr):
    out = []
    k = 0
    for e in m.elements:
        if isinstance(e, Stoch):
            n, frac, which, neg = fr[k % len(fr)]
            masses = [refchem.heavy_mass(t) for t in e.repeat]
            mu = masses[which % len(masses)] or 12.0
            T = (n + frac) * mu
            if neg == 0:
                T = -abs(T) - 1.0
            out.append(T)
            k += 1
    return out


def nontrivial_key(prop, m, facts, text, seed):
    if prop == "C04":
        return (text, seed) if facts.get("n_res", 0) >= 3 and facts.get("n_kinds", 0) >= 2 else None
    if prop == "C05":
        ringy = any(("ring" in t.flags or "bracket" in t.flags) for t in m.tokens)
        return (text, seed) if facts.get("n_res", 0) >= 3 and ringy else None
    if prop == "C06":
        branching = any(len(t.atts) >= 3 for t in m.tokens)
        two_ends = any(isinstance(e, Stoch) and len(e.end) >= 2 for e in m.elements)
        return (text, seed) if (len(m.elements) >= 2 or branching or two_ends) else None
    if prop == "C07":
        for c in facts.get("c07", []):
            if c["n"] >= 2 and c["tight"]:
                return (text, seed)
        return None
    return None


@st.composite
def gen_case_lists(draw):
    m = draw(molecules(avoid=AVOID, max_blocks=2, max_atoms=4, small=True, lists=True, plain_ok=False))
    seed = draw(st.integers(0, 2**31 - 1))
    fr = [(draw(st.integers(1, 4)), draw(st.sampled_from([0.5, 0.25])), draw(st.integers(0, 3)), 1) for _ in range(3)]
    return m, seed, True, fr


def _misdirect_list(m, seed):
    """move list weight onto an incompatible descriptor of the same object; True if something was changed"""
    from ..strategies import _reprint
    import random
    rnd = random.Random(seed)
    stos = [e for e in m.elements if isinstance(e, Stoch)]
    rnd.shuffle(stos)
    for sto in stos:
        allb = sto.bds
        cands = [b for b in sto.repeat_bds if b.transitions]
        rnd.shuffle(cands)
        for b in cands:
            bad = [i for i, o in enumerate(allb) if not b.compatible(o)]
            if not bad:
                continue
            lst = list(b.weight)
            lst[rnd.choice(bad)] = float(rnd.choice([1, 3, 7]))
            b.weight = tuple(lst)
            _reprint(sto)
            m.written = [e.text() if isinstance(e, Stoch) else w for e, w in zip(m.elements, m.written)]
            return True
    return False


def one_generation(acc, prop, m, seed, forced, fr, script=None, parsed=None, tolerate_raise=False):
    """returns parsed (for re-use) or None"""
    text = m.text(False)
    if parsed is None:
        status, parsed = gen.parse_mol(m)
        if status != "ok" or not parsed.tok_index:
            acc.count("parse_problem_dropped(C02's business)")
            return None
    targets = targets_for(m, fr) if forced else None
    rng = probe.ScriptedRNG(script) if script is not None else probe.CountingRNG(seed)
    gres = gen.generate(parsed, rng, targets)
    case = {"text": text, "ast": m.to_json(), "seed": seed, "forced": forced, "fr": [list(x) for x in fr], "script": script}
    if gres.status == "budget":
        acc.case(None, labels=["gen:choice_budget"])
        if prop == "C06":
            acc.violation("terminates", f"generation of {text!r} made more than {getattr(rng, 'limit', '?')} random choices "
                          f"(bound for a correct generation with these targets, safety factor 3)", case, {}, size=len(text))
        return parsed
    if gres.status == "timeout":
        acc.count("generation_wall_clock_guard(inconclusive)")
        return parsed
    if gres.status == "raise":
        msg = repr(gres.exc)
        if isinstance(gres.exc, BaseException) and type(gres.exc).__name__ == "NeedChoice":
            raise gres.exc
        if not forced and "updating stopped" in msg:
            acc.count("sampler_error_dropped(C11's business)")
            return parsed
        acc.case(None, labels=["gen:raised"])
        if tolerate_raise:
            return parsed
        if prop == "C06":
            acc.violation("completes", f"generation of the well-posed molecule {text!r} raised {msg[:300]}", case,
                          {"error": type(gres.exc).__name__}, size=len(text))
        if prop == "C05" and type(gres.exc).__name__ in ("AtomValenceException", "KekulizeException", "AtomKekulizeException",
                                                          "AtomSanitizeException", "MolSanitizeException"):
            # the growing molecule did not pass chemical sanitisation (the library sanitises while it measures the mass)
            acc.violation("sanitize", f"generation of {text!r} stopped because the molecule does not sanitise: {msg[:300]}", case,
                          {"during_generation": True}, size=len(text))
        return parsed
    findings, facts = genoracle.evaluate(parsed, gres, want_closed=not tolerate_raise)
    acc.case(nontrivial_key(prop, m, facts, text, seed if script is None else tuple(script)),
             labels=["arche:" + a for a in m.arche.split("+")] + [f"forced:{forced}", f"n_res:{min(facts.get('n_res', 0), 12)}"])
    if prop == "C05":
        # the public SMILES view of the generated molecule must denote that molecule (elements, charges, isotopes, bonds)
        try:
            from rdkit import Chem
            smi = gres.molgen.smiles
            a = Chem.MolToSmiles(Chem.RemoveHs(gres.molgen.mol))
            q = Chem.MolFromSmiles(smi)
            b = None if q is None else Chem.MolToSmiles(Chem.RemoveHs(q))
            if b is not None and a != b:
                findings = list(findings) + [("C05", "smiles_denotes_molecule", f".smiles is {smi!r} (canonical {b}), .mol is {a}", {})]
        except Exception:  # noqa: BLE001 - sanitisation problems are the business of the 'sanitize' oracle
            pass
    for p, oracle, msg, sig in findings:
        if p == prop:
            acc.violation(oracle, f"{msg}\n molecule: {text!r}\n generated: {safe_smiles(gres.molgen)}", case, sig, size=len(text))
    if acc.evaluations % 61 == 0:
        acc.sample({"molecule": text, "seed": seed, "targets": [round(d[2], 4) for d in gres.draws], "generated": safe_smiles(gres.molgen)})
    return parsed


def safe_smiles(mg):
    try:
        return mg.smiles
    except Exception as exc:  # noqa: BLE001
        return f"<smiles raised {exc!r}>"


SOFT_DEADLINE = {"quick": 75.0, "thorough": 1200.0}  # seconds per shard; only stops *generating more cases*, never an oracle
MAX_PATHS = {"quick": 250, "thorough": 3000}


def run_shard(cfg, prop):
    import time
    acc = Acc()
    sz = SIZES[cfg["tier"]]
    per = {k: max(1, v // cfg["nshards"]) for k, v in sz.items()}
    t_end = time.time() + SOFT_DEADLINE[cfg["tier"]]
    max_paths = MAX_PATHS[cfg["tier"]]

    def f(x):
        m, seed, forced, fr = x
        if time.time() > t_end - 0.4 * SOFT_DEADLINE[cfg["tier"]]:
            acc.count("cases_skipped_after_soft_deadline")
            return
        ok, why = reflaw.well_posed(m)
        if not ok:
            acc.count("rejected_by_closability_analysis")
            return
        acc.count("accepted_by_closability_analysis")
        one_generation(acc, prop, m, seed, forced, fr)
    drive(gen_case(), f, per["random"], cfg["seed"])

    # lists that put weight on an INCOMPATIBLE descriptor: the notation is ill-posed, generation may raise - but whatever it
    # returns must still satisfy C04/C05 (no bond between incompatible descriptors on any path)
    if prop in ("C04", "C05"):
        def h(x):
            m, seed, forced, fr = x
            if time.time() > t_end - 0.3 * SOFT_DEADLINE[cfg["tier"]]:
                return
            ok, why = reflaw.well_posed(m)
            if not ok:
                return
            if not _misdirect_list(m, seed):
                acc.count("misdirect_not_applicable")
                return
            acc.count("misdirected_list_cases")
            one_generation(acc, prop, m, seed, True, fr, tolerate_raise=True)
        drive(gen_case_lists(), h, max(1, per["random"] // 3), cfg["seed"] + 3)

    # growth that instates heavy end groups through lists while other descriptors stay open (branching units)
    if prop in ("C06", "C07"):
        @st.composite
        def branchy(draw):
            m = draw(molecules(avoid=AVOID, max_blocks=1, max_atoms=4, small=True, lists=True, to_end=True, plain_ok=False,
                               arche=draw(st.sampled_from(["branch", "graft", "copoly"]))))
            fr = [(draw(st.integers(1, 6)), draw(st.sampled_from([0.5, 0.25, -0.5])), draw(st.integers(0, 3)), 1) for _ in range(3)]
            return m, draw(st.integers(0, 2**31 - 1)), True, fr

        def hb(x):
            m, seed, forced, fr = x
            if time.time() > t_end - 0.3 * SOFT_DEADLINE[cfg["tier"]]:
                return
            ok, why = reflaw.well_posed(m)
            if not ok:
                acc.count("rejected_by_closability_analysis")
                return
            one_generation(acc, prop, m, seed, forced, fr)
        drive(branchy(), hb, max(1, per["random"] // 3), cfg["seed"] + 5)

    # larger tokens with aromatic ring motifs (benzene, pyridine, thiophene, furan, pyrimidine, N-substituted imidazole): the small
    # tokens above never have room for them
    if prop in ("C04", "C05"):
        @st.composite
        def ringy(draw):
            m = draw(molecules(avoid=AVOID, max_blocks=2, max_atoms=draw(st.sampled_from([7, 8, 9])), small=True, chem="ff"))
            fr = [(draw(st.integers(0, 3)), draw(st.sampled_from([0.5, 0.25, -0.5])), draw(st.integers(0, 3)), 1) for _ in range(3)]
            return m, draw(st.integers(0, 2**31 - 1)), True, fr

        def hr(x):
            m, seed, forced, fr = x
            if time.time() > t_end - 0.3 * SOFT_DEADLINE[cfg["tier"]]:
                return
            ok, why = reflaw.well_posed(m)
            if not ok:
                return
            if any("ring" in t.flags for t in m.tokens):
                acc.label("aromatic_or_ring_token")
            one_generation(acc, prop, m, seed, forced, fr)
        drive(ringy(), hr, max(1, per["random"] // 4), cfg["seed"] + 9)

    # bounded instances: every sequence of random choices
    def g(x):
        m, seed, _, fr = x
        if time.time() > t_end:
            acc.count("instances_skipped_after_soft_deadline")
            return
        ok, why = reflaw.well_posed(m)
        if not ok:
            return
        fr = [(min(n, 1), frac, w, 1) for n, frac, w, neg in fr]
        status, parsed = gen.parse_mol(m)
        if status != "ok" or not parsed.tok_index:
            return
        npaths = 0
        try:
            stack = [[]]
            while stack:
                script = stack.pop()
                try:
                    one_generation(acc, prop, m, seed, True, fr, script=script, parsed=parsed)
                except probe.NeedChoice as need:
                    for k in reversed(range(len(need.p))):
                        if need.p[k] > 0:
                            stack.append(script + [k])
                    continue
                npaths += 1
                if npaths >= max_paths or time.time() > t_end:
                    acc.count("instances_truncated(path cap or soft deadline)")
                    break
        finally:
            acc.count("instances_enumerated")
            acc.count("paths_enumerated", npaths)
    drive(gen_case(small=True), g, per["instances"], cfg["seed"] + 7)
    return acc


def shrink_candidates(case):
    """smaller molecules (same seed / forced targets); a recorded choice script is dropped with the first reduction"""
    from ..shrink import mol_candidates
    for ast, text in mol_candidates(case["ast"]):
        if case.get("script") is None:
            yield {**case, "ast": ast, "text": text}


def replay(case, prop):
    acc = Acc()
    m = Mol.from_json(case["ast"])
    one_generation(acc, prop, m, case["seed"], case["forced"], [tuple(x) for x in case["fr"]], script=case.get("script"))
    return acc
