"""C12 - mixture bookkeeping: percentages sum to 100 and masses are consistent.

Domain: specifier configurations of 1-5 components, each {absolute, percent, missing (last only)}, values derived
from a consistent ground truth or perturbed into contradiction, with / without a caller-supplied system mass.
Oracle: reference linear-system solver (gbsv/refmix.py) classifies determined / under-determined / contradictory.
"""
import re

from hypothesis import strategies as st

from .. import probe, refmix
from ..acc import Acc
from ..hyp import drive

ID = "C12"
LEVEL = "exploration"
RULE = ("configurations of 1-5 plain-molecule components with specifier kinds {absolute, percent, missing(last)}, values written in "
        "several number formats from a consistent ground truth (system mass and fractions drawn, the written values derived) or "
        "perturbed into contradiction, with/without system_molweight; non-trivial = >=2 components with >=2 different specifier "
        "kinds; distinct = (kinds, rounded values, external mass)")
ASSUMPTIONS = ["reference solver gbsv/refmix.py; tolerance 1e-6 relative as the code's own",
               "contradictory specifications may be refused by an exception or by generable False (the latter is recorded as an "
               "observation); only generable True is a violation"]

SIZES = {"quick": 48000, "thorough": 600000}
SMI = ["CC", "CCC", "CCCC", "CCO", "c1ccccc1", "CCN", "OCCO"]


def plan(tier, seed):
    return [{} for _ in range(16)]


def fmt(x, style):
    """exact spellings only: every style reads back to the same double"""
    import numpy as np
    x = float(x)
    if style == "int" and x == int(x) and abs(x) < 1e15:
        return str(int(x))
    if style == "sci":
        return np.format_float_scientific(x, unique=True)
    if style == "SCI":
        return np.format_float_scientific(x, unique=True).upper()
    if style == "nolead":  # .5  (no digit in front of the decimal point)
        r = repr(x)
        return r[1:] if r.startswith("0.") else r
    if style == "traildot" and x == int(x) and abs(x) < 1e15:
        return str(int(x)) + "."
    return repr(x)


@st.composite
def config(draw):
    n = draw(st.integers(1, 5))
    S = float(draw(st.sampled_from([100, 1000, 600.0, 20000, 1e5, 5e7, 0.3, 12345.678, 1.5])))
    parts = [draw(st.integers(1, 20)) for _ in range(n)]
    tot = sum(parts)
    frac = [100.0 * p / tot for p in parts]
    kinds = [draw(st.sampled_from(["abs", "pct"])) for _ in range(n)]
    if draw(st.integers(0, 3)) == 0:
        kinds[-1] = None
    specs = []
    for k, f in zip(kinds, frac):
        if k == "abs":
            specs.append(("abs", f / 100.0 * S))
        elif k == "pct":
            specs.append(("pct", f))
        else:
            specs.append(None)
    ext = S if draw(st.integers(0, 2)) == 0 else None
    mode = draw(st.sampled_from(["consistent"] * 3 + ["perturb_value", "perturb_ext"]))
    if mode == "perturb_value" and any(specs):
        idx = draw(st.sampled_from([i for i, s in enumerate(specs) if s]))
        fac = draw(st.sampled_from([0.5, 1.5, 1.001, 0.9, 3.0]))
        specs[idx] = (specs[idx][0], specs[idx][1] * fac)
    if mode == "perturb_ext":
        ext = S * draw(st.sampled_from([0.5, 2.0, 1.01, 0.999]))
    styles = [draw(st.sampled_from(["repr", "int", "sci", "SCI", "nolead", "traildot"])) for _ in range(n)]
    smis = [draw(st.sampled_from(SMI)) for _ in range(n)]
    return specs, ext, styles, smis, mode


def write(specs, styles, smis):
    s = ""
    for sp, stl, smi in zip(specs, styles, smis):
        s += smi
        if sp is not None:
            s += ".|" + fmt(sp[1], stl) + ("%" if sp[0] == "pct" else "") + "|"
    return s


def close(a, b, rel=1e-6):
    return abs(a - b) <= rel * max(1.0, abs(a), abs(b))


def check(acc, specs, ext, styles, smis, mode):
    import gbigsmiles

    text = write(specs, styles, smis)
    # the reference works on the values as written (after number formatting)
    wspecs = []
    for sp, stl in zip(specs, styles):
        wspecs.append(None if sp is None else (sp[0], float(fmt(sp[1], stl))))
    verdict = refmix.classify(wspecs, ext)
    if verdict[0] == "degenerate":
        acc.count("degenerate_skipped")
        return
    kinds = tuple("none" if s is None else s[0] for s in wspecs)
    nontrivial = len(wspecs) >= 2 and len(set(kinds)) >= 2
    case = {"text": text, "ext": ext, "specs": [list(s) if s else None for s in wspecs]}
    sig = {"verdict": verdict[0], "kinds": "+".join(sorted(set(kinds))), "ext": ext is not None,
           "n_abs": min(2, kinds.count("abs")), "n_pct": min(2, kinds.count("pct"))}
    acc.case((kinds, tuple(None if s is None else round(s[1], 6) for s in wspecs), ext) if nontrivial else None,
             labels=["verdict:" + verdict[0], "mode:" + mode, f"n:{len(wspecs)}", "ext:" + str(ext is not None)])
    status, val = probe.guarded(lambda: gbigsmiles.System(text, ext) if ext is not None else gbigsmiles.System(text))
    if status == "timeout":
        acc.count("timeout")
        return
    if status == "raise":
        if verdict[0] == "determined":
            acc.violation("determined_rejected", f"System({text!r}, {ext}) raised {val!r}; the specification determines S={verdict[1]:.9g}", case,
                          {**sig, "error": type(val).__name__}, size=len(text))
        elif verdict[0] == "under":
            acc.violation("under_determined_raises", f"System({text!r}, {ext}) raised {val!r}; an under-determined system must report not generable", case,
                          {**sig, "error": type(val).__name__}, size=len(text))
        else:
            acc.label("contradictory:raises")
        return
    sysobj = val
    try:
        g = bool(sysobj.generable)
    except Exception as exc:  # noqa: BLE001
        acc.violation("generable_raises", f"System({text!r}, {ext}).generable raised {exc!r}", case, sig, size=len(text))
        return
    if verdict[0] == "contradictory":
        if g:
            mols = getattr(sysobj, "_molecules", [])
            vals = [(m.mixture.absolute_mass, m.mixture.relative_mass) if m.mixture else None for m in mols]
            acc.violation("contradictory_accepted", f"System({text!r}, {ext}) is generable although the specification is contradictory ({verdict[1]}); masses {vals}", case, sig, size=len(text))
        else:
            acc.label("contradictory:not_generable(observation)")
        return
    if verdict[0] == "under":
        if g:
            acc.violation("under_determined_generable", f"System({text!r}, {ext}) reports generable although {verdict[1]}", case, sig, size=len(text))
        return
    # determined
    S, vals = verdict[1], verdict[2]
    if not g:
        acc.violation("determined_not_generable", f"System({text!r}, {ext}) reports not generable; the specification determines S={S:.9g}, "
                      f"components {[(round(a, 6), round(r, 6)) for a, r in vals]}", case, sig, size=len(text))
        return
    try:
        sm = float(sysobj.system_mass)
    except Exception as exc:  # noqa: BLE001
        acc.violation("system_mass_raises", f"System({text!r}, {ext}).system_mass raised {exc!r}", case, sig, size=len(text))
        return
    if not close(sm, S):
        acc.violation("system_mass", f"System({text!r}, {ext}).system_mass = {sm!r}, specification gives {S!r}", case, sig, size=len(text))
    mols = getattr(sysobj, "_molecules", None)
    if mols is None:
        acc.count("molecules_not_observable")
        return
    if len(mols) != len(vals):
        acc.violation("n_components", f"{len(mols)} components parsed from {text!r}", case, sig, size=len(text))
        return
    tot = 0.0
    for i, (m, (a, r)) in enumerate(zip(mols, vals)):
        mix = m.mixture
        if mix is None or mix.absolute_mass is None or mix.relative_mass is None:
            acc.violation("component_incomplete", f"component {i} of {text!r} lacks a mass or percentage after parsing", case, sig, size=len(text))
            return
        tot += float(mix.relative_mass)
        if not close(float(mix.relative_mass), r) or not close(float(mix.absolute_mass), a):
            acc.violation("component_values", f"component {i} of System({text!r}, {ext}): ({mix.absolute_mass!r}, {mix.relative_mass!r}%), "
                          f"specification gives ({a!r}, {r!r}%)", case, sig, size=len(text))
            return
        if not close(float(mix.absolute_mass), float(mix.relative_mass) / 100.0 * sm):
            acc.violation("absolute_is_percentage_of_system", f"component {i} of {text!r}: {mix.absolute_mass!r} != {mix.relative_mass!r}% of {sm!r}", case, sig, size=len(text))
    if abs(tot - 100.0) > 1e-6 * 100:
        acc.violation("percent_sum", f"percentages of System({text!r}, {ext}) sum to {tot!r}", case, sig, size=len(text))
    # print -> re-parse keeps all masses
    try:
        c = str(sysobj)
        s2 = gbigsmiles.System(c, ext) if ext is not None else gbigsmiles.System(c)
        m2 = getattr(s2, "_molecules", [])
        for i, (m, mm) in enumerate(zip(mols, m2)):
            if not (close(float(m.mixture.absolute_mass), float(mm.mixture.absolute_mass)) and close(float(m.mixture.relative_mass), float(mm.mixture.relative_mass))):
                acc.violation("roundtrip_masses", f"str(System({text!r}, {ext})) = {c!r} re-parses with other masses for component {i}", case, sig, size=len(text))
                break
        if not s2.generable:
            acc.violation("roundtrip_generable", f"str(System({text!r}, {ext})) = {c!r} is not generable when parsed again", case, sig, size=len(text))
    except Exception as exc:  # noqa: BLE001
        acc.violation("roundtrip_raises", f"re-parsing str(System({text!r}, {ext})) raised {exc!r}", case, sig, size=len(text))
    if acc.evaluations % 211 == 0:
        acc.sample({"text": text, "system_molweight": ext, "verdict": verdict[0], "S": S})


def run_shard(cfg):
    acc = Acc()
    n = max(1, SIZES[cfg["tier"]] // cfg["nshards"])
    drive(config(), lambda x: check(acc, *x), n, cfg["seed"])
    return acc


def replay(case, rec):
    acc = Acc()
    specs = [tuple(s) if s else None for s in case["specs"]]
    smis = re.split(r"\.\|[^|]*\|", case["text"])
    smis = [s for s in smis if s] or ["CC"]
    while len(smis) < len(specs):
        smis.append("CC")
    check(acc, specs, case["ext"], ["repr"] * len(specs), smis[: len(specs)], "replay")
    return acc
