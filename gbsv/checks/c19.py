"""C19 - ensemble probability of linear directed chains equals generation probability.

Domain: 1-2 blocks of one directed (< >) repeat unit each (generated chemistry, symmetric units included), started by a
prefix or by an end group, ended by a suffix or an end group, every family in a region with P(T<0) negligible; all
chain lengths until the reference tail is < 1e-9; each queried molecule written in several random atom orders;
foreign molecules (wrong end group, a changed atom, a unit of another monomer).
Oracle: closed-form reference  P(n_1..n_b) = prod_blocks [F(c_n) - F(c_(n-1))] ; sum over lengths == 1 ; foreign => 0 ;
all atom orders agree.
"""
import math

import numpy as np
from hypothesis import strategies as st
from rdkit import Chem

from .. import probe, refchem, refdist
from ..acc import Acc
from ..ast import BD, Dist, Mol, Stoch, Tok
from ..hyp import drive
from ..strategies import token

ID = "C19"
LEVEL = "exploration"
RULE = ("generated molecules of 1-3 linear blocks of a single directed repeat unit (neighbouring blocks with the same unit included: reference "
        "summed over all splits that build the same molecule) (random small chemistry, symmetric units included) with "
        "prefix/end-group start and suffix/end-group end, 6 families with means of 2-6 units; every chain length until the reference tail "
        "< 1e-9 is queried in 3 random atom orders, plus foreign molecules; non-trivial = queried chain with >=2 units in some block; "
        "distinct = (molecule string, lengths)")
ASSUMPTIONS = ["reference: product of the closed-form window probabilities (refdist), start probability sums to 1 because both starting end "
               "groups of a linear directed chain give the same molecule",
               "query SMILES are written with explicit [H] atoms kept (removeHs=False on the library side)",
               "tolerance 1e-7 absolute + 1e-6 relative; parameter regions keep P(T<0) < 1e-9"]

SIZES = {"quick": 48, "thorough": 600}


def plan(tier, seed):
    return [{} for _ in range(16)]


@st.composite
def dist_for(draw, m, nb=1):
    fam = draw(st.sampled_from(["gauss", "uniform", "schulz_zimm", "log_normal", "poisson", "flory_schulz"] if nb == 1 else
                               ["gauss", "uniform", "schulz_zimm", "log_normal", "poisson", "gauss", "uniform"]))
    k = draw(st.floats(2.0, 5.0)) if nb == 1 else draw(st.floats(1.3, 3.0))
    mean = float(f"{k * m:.4g}")
    if fam == "gauss":
        return Dist(fam, (mean, float(f"{mean / draw(st.sampled_from([7.0, 10.0, 20.0])):.4g}")))
    if fam == "uniform":
        lo = int(mean * draw(st.sampled_from([0.4, 0.7])))
        return Dist(fam, (float(lo), float(int(2 * mean - lo) + 1)))
    if fam == "schulz_zimm":
        mn = max(40.0, mean)
        return Dist(fam, (float(f"{mn * draw(st.sampled_from([1.05, 1.2, 1.5])):.5g}"), mn))
    if fam == "log_normal":
        return Dist(fam, (mean, draw(st.sampled_from([1.05, 1.2, 1.5]))))
    if fam == "poisson":
        return Dist(fam, (mean,))
    return Dist(fam, (float(f"{min(0.8, 2.0 / (mean + 1)):.4g}"),))


@st.composite
def chain_case(draw):
    nb = draw(st.sampled_from([1, 1, 2, 2, 3]))
    prev_unit = None
    start_prefix = draw(st.booleans())
    end_suffix = draw(st.booleans())
    els, written = [], []
    if start_prefix:
        pre = draw(token([BD(">", None, 0.0)], max_atoms=3, end_bd_last=True, allow_lead=False, rings=False, single_h=draw(st.booleans())))
        els.append(pre)
        written.append(pre.text_ext[: -len("[>|0|]")] if draw(st.booleans()) else pre.text_ext)
    for b in range(nb):
        last = b == nb - 1
        if prev_unit is not None and draw(st.integers(0, 2)) == 0:
            # the same repeat unit as the block before: a molecule then arises from several splits of its units over the blocks
            unit = Tok.from_json(prev_unit.to_json())
        elif draw(st.integers(0, 3)) == 0:
            # symmetric units (head and tail equivalent), written by hand
            unit = draw(st.sampled_from([
                Tok(["C", "C"], [(0, 1, 1.0)], [(0, BD("<")), (1, BD(">"))], "[<]CC[>]"),
                Tok(["C"], [], [(0, BD("<")), (0, BD(">"))], "[<]C[>]"),
                Tok(["C", "O", "C"], [(0, 1, 1.0), (1, 2, 1.0)], [(0, BD("<")), (2, BD(">"))], "[<]COC[>]"),
                Tok(["C", "F", "F", "C", "F", "F"], [(0, 1, 1.0), (0, 2, 1.0), (0, 3, 1.0), (3, 4, 1.0), (3, 5, 1.0)],
                    [(0, BD("<")), (3, BD(">"))], "[<]C(F)(F)C(F)(F)[>]"),
            ]))
        else:
            unit = draw(token([BD("<"), BD(">")], max_atoms=4, rings=False, min_heavy=2))
        prev_unit = unit
        left = BD(">") if (start_prefix or b > 0) else BD("")
        right = BD("<") if (not last or end_suffix) else BD("")
        ends = []
        if left.symbol == "":   # head-side end group: carries '>' and bonds the '<' of the first unit
            ends.append(draw(token([BD(">")], max_atoms=2, rings=False, single_h=draw(st.booleans()))))
        if right.symbol == "":  # tail-side end group: carries '<' and caps the open '>'
            ends.append(draw(token([BD("<")], max_atoms=2, rings=False, single_h=False)))
        m_unit = refchem.heavy_mass(unit)
        d = draw(dist_for(max(m_unit, 12.0), nb))
        s = Stoch(left, right, [unit], ends, d, ("", " ", " ", ""))
        els.append(s)
        written.append(s.text())
    if end_suffix:
        suf = draw(token([BD("<")], max_atoms=3, lead_bd_first=True, allow_lead=False, rings=False, single_h=draw(st.booleans())))
        els.append(suf)
        written.append(suf.text_ext[len("[<]"):] if draw(st.booleans()) else suf.text_ext)
    m = Mol(els, written, None, "plain", "c19")
    return m, draw(st.integers(0, 2**31 - 1))


def automorphic(tok: Tok):
    """True if some automorphism of the token's graph moves an atom that carries a bond descriptor, or if two descriptors
    share an atom (the token can then be laid onto a molecule in more than one way)"""
    atts = [a for a, _ in tok.atts]
    if len(set(atts)) < len(atts):
        return True
    if len(tok.atoms) == 1:
        return False
    fm = refchem.fragment_mol(tok, sanitize=True)
    for mp in fm.GetSubstructMatches(fm, uniquify=False, maxMatches=5000):
        if any(mp[a] != a for a in atts):
            return True
    return False


def build(m: Mol, lengths, alter=None):
    """assemble the linear chain; returns RDKit mol"""
    res, links = [], []

    def attach(tok, via_sym):
        """append tok, bonding its descriptor `via_sym` to the currently open (res, atom)"""
        res.append(tok)
        r = len(res) - 1
        return r

    open_end = None  # (res index, atom, symbol)
    k = 0
    for e in m.elements:
        if isinstance(e, Tok):
            r = attach(e, None)
            if open_end is not None:
                a = next(a for a, b in e.atts if b.symbol == "<")
                links.append((open_end[0], open_end[1], r, a, 1))
                open_end = None
            outs = [a for a, b in e.atts if b.symbol == ">"]
            if outs:
                open_end = (r, outs[0])
        else:
            n = lengths[k]
            k += 1
            unit = e.repeat[0]
            head = next(a for a, b in unit.atts if b.symbol == "<")
            tail = next(a for a, b in unit.atts if b.symbol == ">")
            if e.left.symbol == "":
                # starting end group: the one whose descriptor is '>' bonds the unit's '<' (head)
                eg = next(t for t in e.end if t.atts[0][1].symbol == ">")
                r = attach(eg, None)
                open_end = (r, eg.atts[0][0])
            for _ in range(n):
                r = attach(unit, None)
                links.append((open_end[0], open_end[1], r, head, 1))
                open_end = (r, tail)
            if e.right.symbol == "":
                eg = next(t for t in e.end if t.atts[0][1].symbol == "<")
                r = attach(eg, None)
                links.append((open_end[0], open_end[1], r, eg.atts[0][0], 1))
                open_end = None
    mol = refchem.assemble(res, links)
    return mol


def random_smiles(mol, rng, k):
    out = []
    n = mol.GetNumAtoms()
    for _ in range(k):
        perm = list(rng.permutation(n))
        m2 = Chem.RenumberAtoms(mol, [int(x) for x in perm])
        out.append(Chem.MolToSmiles(m2, canonical=False))
    return out


def p_block(ref, m_unit, n):
    hi = ref.cdf_int_raw(n * m_unit) if ref.family == "schulz_zimm" else ref.cdf(n * m_unit)
    lo = (ref.cdf_int_raw((n - 1) * m_unit) if ref.family == "schulz_zimm" else ref.cdf((n - 1) * m_unit)) if n > 1 else (
        ref.cdf_int_raw(0) if ref.family == "schulz_zimm" else ref.cdf(0.0))
    return max(0.0, hi - lo)


def check(acc, m: Mol, seed):
    import gbigsmiles
    from gbigsmiles.mol_prob import get_ensemble_prob

    text = m.text(False)
    status, big = probe.guarded(gbigsmiles.Molecule, text)
    if status != "ok" or not big.generable:
        acc.count("parse_or_generable_dropped")
        return
    stochs = [e for e in m.elements if isinstance(e, Stoch)]
    refs = [refdist.Ref(e.dist.family, e.dist.params) for e in stochs]
    mus = [refchem.heavy_mass(e.repeat[0]) for e in stochs]
    if any(mu <= 0 for mu in mus):
        acc.count("massless_unit_dropped")
        return
    # P(T<0) must be negligible for the closed form
    for r in refs:
        if r.family in ("gauss",) and r.cdf(0.0) > 1e-9:
            acc.count("negative_targets_possible_dropped")
            return
    rng = np.random.default_rng(seed)
    nmax = []
    cap = 16 if len(refs) == 1 else (9 if len(refs) == 2 else 5)
    for r, mu in zip(refs, mus):
        n = 1
        cut = 1e-9 if len(refs) == 1 else 1e-6
        # broad laws (schulz_zimm, flory_schulz, log_normal) have long tails: the lengths are capped, the mass beyond the cap is
        # accounted for (total_ref below is the mass of the enumerated lengths, not 1)
        while n < cap and 1 - (r.cdf_int(n * mu) if r.family == "schulz_zimm" else r.cdf(n * mu)) > cut:
            n += 1
        nmax.append(n)
    if int(np.prod(nmax)) > 130:
        acc.count("too_many_lengths_dropped")
        return
    end_start = stochs[0].left.symbol == "" and not isinstance(m.elements[0], Tok)
    symmetric = [automorphic(t) for t in m.tokens]
    shared = any(len({a for a, _ in t.atts}) < len(t.atts) for t in m.tokens)
    case0 = {"text": text, "ast": m.to_json(), "seed": seed}
    sig0 = {"end_group_start": bool(end_start), "automorphic_token": bool(any(symmetric)), "shared_descriptor_atom": bool(shared)}
    import itertools
    total = 0.0
    tol_abs = 1e-7
    # Schulz-Zimm: the library sums the documented density over the integers without normalising; the reference (cdf_int) is
    # the same sum normalised - they differ by at most the discretisation error of the total, computed from the documented law
    delta = sum(1e-9 for r in refs if r.family == "schulz_zimm")  # the reference is the documented density summed over the integers, un-normalised like the library's
    worst = None
    # reference law over *molecules*: a molecule's probability is the sum over all unit-count tuples that build it
    groups = {}
    for lengths in itertools.product(*[range(1, n + 1) for n in nmax]):
        p_ref = 1.0
        for r, mu, n in zip(refs, mus, lengths):
            p_ref *= p_block(r, mu, n)
        try:
            mol = build(m, lengths)
            key = Chem.MolToSmiles(mol)
        except Exception as exc:  # noqa: BLE001
            acc.count("reference_molecule_not_buildable_dropped")
            return
        g = groups.setdefault(key, [0.0, mol, []])
        g[0] += p_ref
        g[2].append(lengths)
    total_ref = sum(g[0] for g in groups.values())  # 1 - (tails beyond the enumerated lengths)
    # with equal units in neighbouring blocks a molecule also arises from splits beyond the enumerated lengths: at most the tails
    same_unit = any(a.repeat[0].text_ext == b.repeat[0].text_ext for a, b in zip(stochs, stochs[1:]))
    trunc = sum(1 - (r.cdf_int(n * mu) if r.family == "schulz_zimm" else r.cdf(n * mu)) for r, mu, n in zip(refs, mus, nmax)) if same_unit else 0.0
    if any(len(g[2]) > 1 for g in groups.values()):
        acc.label("molecule_with_several_splits")
    for key, (p_ref, mol, tuples) in groups.items():
        lengths = tuples[0]
        # first query: RDKit's canonical atom order (what MolGen.smiles produces), then random atom orders
        smis = [key] + random_smiles(mol, rng, 2)
        vals = []
        for smi in smis:
            st_, res = probe.guarded(lambda: get_ensemble_prob(smi, big), seconds=120)
            if st_ != "ok":
                acc.case(None, labels=["query_raised"])
                acc.violation("query_raises", f"get_ensemble_prob({smi!r}, {text!r}) {st_}: {res!r}", {**case0, "lengths": list(lengths)},
                              {**sig0, "error": type(res).__name__ if st_ == "raise" else st_}, size=len(text))
                return
            vals.append(float(res[0]) if isinstance(res, tuple) else float(res))
        acc.case((text, lengths) if max(lengths) >= 2 else None, labels=["fam:" + e.dist.family for e in stochs] + [f"end_start:{end_start}", f"symmetric:{any(symmetric)}",
                                                                                                         f"blocks:{len(nmax)}", f"splits:{min(len(tuples), 3)}"])
        if max(vals) - min(vals) > 1e-12 + 1e-9 * max(vals):
            acc.violation("atom_order", f"{text!r} lengths {lengths}: probability depends on the atom order of the query: {dict(zip(smis, vals))}",
                          {**case0, "lengths": list(lengths)}, sig0, size=len(text))
        got = vals[0]
        total += got
        tol = tol_abs + 1e-6 * p_ref + delta + trunc
        if abs(got - p_ref) > tol and (worst is None or abs(got - p_ref) > worst[0]):
            worst = (abs(got - p_ref), tuples, got, p_ref, smis[0], mol)
    if worst is not None:
        _, tuples, got, p_ref, smi, wmol = worst
        lengths = tuples[0]
        # reported = k x generation probability with k dividing the number of automorphisms of the molecule: assignments of
        # tokens to atoms that differ only by a symmetry of the molecule were counted separately
        k_over = int(round(got / p_ref)) if p_ref > 0 else 0
        over = False
        if 2 <= k_over <= 24 and abs(got - k_over * p_ref) <= k_over * (tol_abs + 1e-6 * p_ref + delta + trunc):
            try:
                naut = len(wmol.GetSubstructMatches(wmol, uniquify=False, maxMatches=100000))
            except Exception:  # noqa: BLE001
                naut = 0
            over = naut > 1 and naut % k_over == 0
        acc.violation("probability", f"{text!r}: chain with {tuples if len(tuples) > 1 else lengths} units ({smi}) has ensemble probability {got:.9g}, generation probability is {p_ref:.9g}",
                      {**case0, "lengths": list(lengths)}, {**sig0, "double_counted": bool(abs(got - 2 * p_ref) <= 2 * (tol_abs + 1e-6 * p_ref + delta + trunc)), "overcount_by_symmetry": bool(over)}, size=len(text))
    elif abs(total - total_ref) > 1e-6 + 10 * delta + 1e-8 * len(nmax) + trunc:
        acc.violation("sums_to_one", f"{text!r}: probabilities over all chain lengths (reference mass {total_ref:.9g}) sum to {total:.9g}", case0,
                      {**sig0, "double_counted": bool(abs(total - 2.0) < 1e-5 + 20 * delta)}, size=len(text))
    # foreign molecules: a whole block without any repeat unit (generation always adds at least one)
    for bi in range(len(nmax)):
        lengths0 = tuple(0 if j == bi else min(2, n) for j, n in enumerate(nmax))
        try:
            f0 = Chem.MolToSmiles(build(m, lengths0))
        except Exception:  # noqa: BLE001
            continue
        if f0 in groups:
            continue  # with equal units in neighbouring blocks this molecule is a member of the ensemble
        st_, res = probe.guarded(lambda: get_ensemble_prob(f0, big), seconds=120)
        acc.count("foreign_queries")
        if st_ == "ok":
            v = float(res[0]) if isinstance(res, tuple) else float(res)
            if v > 1e-12:
                acc.violation("foreign_zero", f"{text!r}: molecule {f0} has no repeat unit of block {bi} (outside the ensemble) but probability {v:.6g}",
                              {**case0, "lengths": list(lengths0)}, {**sig0, "kind": "empty_block"}, size=len(text))
    try:
        base = build(m, tuple(min(2, n) for n in nmax))
        rw = Chem.RWMol(base)
        # change one heavy atom of a repeat unit into another element that occurs nowhere in the notation
        present = {a.GetAtomicNum() for a in base.GetAtoms()}
        new = next(z for z in (34, 33, 32, 52) if z not in present)
        target = next(a.GetIdx() for a in rw.GetAtoms() if a.GetAtomicNum() in (6, 7, 8) and a.GetDegree() >= 1)
        rw.GetAtomWithIdx(target).SetAtomicNum(new)
        rw.GetAtomWithIdx(target).SetFormalCharge(0)
        foreign = Chem.MolToSmiles(rw, canonical=False)
        st_, res = probe.guarded(lambda: get_ensemble_prob(foreign, big), seconds=120)
        acc.count("foreign_queries")
        if st_ == "ok":
            v = float(res[0]) if isinstance(res, tuple) else float(res)
            if v > 1e-12:
                acc.violation("foreign_zero", f"{text!r}: molecule {foreign} is outside the ensemble but has probability {v:.6g}", case0, sig0, size=len(text))
    except StopIteration:
        pass
    except Exception:  # noqa: BLE001
        acc.count("foreign_not_buildable")
    if len(acc.samples) < 3:
        acc.sample({"molecule": text, "lengths_up_to": nmax, "sum_of_probabilities": round(total, 9)})


def run_shard(cfg):
    acc = Acc()
    n = max(1, SIZES[cfg["tier"]] // cfg["nshards"])
    drive(chain_case(), lambda x: check(acc, x[0], x[1]), n, cfg["seed"])
    return acc


def shrink_candidates(case):
    """smaller molecules of the same kind (fewer units / end groups, lists and weights removed), still inside the domain"""
    from ..shrink import mol_candidates
    for ast, text in mol_candidates(case["ast"]):
        yield {**case, "ast": ast, "text": text}


def replay(case, rec):
    acc = Acc()
    check(acc, Mol.from_json(case["ast"]), case["seed"])
    return acc
