"""C17 - the stochastic atom graph encodes all atoms, static bonds and admissible links.

Domain: generated molecules of every archetype; Schulz-Zimm distributions (expect_schulz_zimm_distribution=True,
with mn/mw node data) and any distribution with expect_schulz_zimm_distribution=False.
Oracle: an expected multigraph built independently from the AST: one node per atom of every token (element, charge,
aromaticity), static edges for internal bonds (both directions, bond order), stochastic edges between repeat units
(partner's weight or listed weight), termination edges from repeat units to end groups, transition edges between
consecutive elements that respect the terminals; nothing leaves an end group; edge multisets compared on
(from, to, kind, bond order), weights where the statement fixes them.
"""
from hypothesis import strategies as st

from .. import probe, refchem
from ..acc import Acc
from ..ast import BD, Dist, Mol, Stoch, Tok
from ..hyp import drive
from ..strategies import molecules

ID = "C17"
LEVEL = "exploration"
RULE = ("generated molecules of all archetypes (1-3 blocks, ids, lists, connectors, descriptors sharing an atom, single-atom units), "
        "half of them with Schulz-Zimm distributions and the default call, half with other families and expect_schulz_zimm_distribution=False; "
        "non-trivial = graph with stochastic, termination and transition edges; distinct = molecule string")
ASSUMPTIONS = ["expected graph built from the AST by gbsv/checks/c17.py (reference fragments for atoms / static bonds, reference compatibility rule)",
               "edges whose four weights are all zero are ignored on both sides",
               "weights are compared for static and stochastic edges; for termination / transition edges only presence, direction and bond order"]

SIZES = {"quick": 2500, "thorough": 120000}
BT = {1.0: 1, 2.0: 2, 3.0: 3, 1.5: 12}


def plan(tier, seed):
    return [{} for _ in range(16)]


@st.composite
def mol_case(draw):
    sz = draw(st.booleans())
    m = draw(molecules(max_blocks=3, max_atoms=4, small=True, families=["schulz_zimm"] if sz else None))
    return m, sz


def expected(m: Mol):
    """nodes: list of (atomic_num, charge, aromatic); edges: dict kind -> list of (u, v, bond_type, weight)"""
    from rdkit import Chem
    nodes = []
    off = []  # token index -> node offset
    edges = {"static": [], "stochastic": [], "termination": [], "transition": []}
    for t in m.tokens:
        off.append(len(nodes))
        fm = refchem.fragment_mol(t, sanitize=True)
        for a in fm.GetAtoms():
            nodes.append((a.GetAtomicNum(), a.GetFormalCharge(), bool(a.GetIsAromatic())))
        for b in fm.GetBonds():
            bt = int(b.GetBondType())
            i, j = b.GetBeginAtomIdx() + off[-1], b.GetEndAtomIdx() + off[-1]
            edges["static"].append((i, j, bt, 1.0))
            edges["static"].append((j, i, bt, 1.0))
    # per element: token indices
    ti = 0
    el_toks = []
    for e in m.elements:
        if isinstance(e, Tok):
            el_toks.append(([ti], []))
            ti += 1
        else:
            rep = list(range(ti, ti + len(e.repeat)))
            ti += len(e.repeat)
            end = list(range(ti, ti + len(e.end)))
            ti += len(e.end)
            el_toks.append((rep, end))
    toks = m.tokens

    def descs(tidx):
        return [(t_i, a, d) for t_i in tidx for a, d in toks[t_i].atts]

    for ei, e in enumerate(m.elements):
        if not isinstance(e, Stoch):
            continue
        rep, end = el_toks[ei]
        allb = descs(rep) + descs(end)
        nrep = len(descs(rep))
        for t_i, a, d in descs(rep):
            u = off[t_i] + a
            if d.transitions is not None:
                term_targets = set()
                for k, p in enumerate(d.transitions):
                    if p > 0 and d.compatible(allb[k][2]):
                        v = off[allb[k][0]] + allb[k][1]
                        if k < nrep:
                            edges["stochastic"].append((u, v, BT[float(d.order)], float(p)))
                        else:
                            term_targets.add(k)
                # capping does not look at the list: every compatible end group is a termination partner
                for k, (t2, a2, d2) in enumerate(allb):
                    if k >= nrep and d.compatible(d2) and d2.w > 0:
                        term_targets.add(k)
                for k in sorted(term_targets):
                    edges["termination"].append((u, off[allb[k][0]] + allb[k][1], BT[float(d.order)], None))
            else:
                for k, (t2, a2, d2) in enumerate(allb):
                    if d.compatible(d2) and d2.w > 0:
                        v = off[t2] + a2
                        if k < nrep:
                            edges["stochastic"].append((u, v, BT[float(d.order)], float(d2.w)))
                        else:
                            edges["termination"].append((u, v, BT[float(d.order)], None))
    # transitions between consecutive elements
    for ei in range(len(m.elements) - 1):
        lhs, rhs = m.elements[ei], m.elements[ei + 1]
        lrep, lend = el_toks[ei]
        rrep, rend = el_toks[ei + 1]
        for t_i, a, d in descs(lrep):  # nothing leaves an end group
            if isinstance(lhs, Stoch):
                if not lhs.right.symbol:
                    continue
                want = BD(lhs.right.symbol, lhs.right.id, None, lhs.right.order)
                if not want.compatible(d):
                    continue
            for t2, a2, d2 in descs(rrep):
                if not d.compatible(d2):
                    continue
                if isinstance(rhs, Stoch):
                    if (d.symbol, d.id) != (rhs.left.symbol, rhs.left.id):
                        continue
                if d2.w == 0:
                    continue  # the edge would carry weight 0 in all four slots: ignored on both sides
                edges["transition"].append((off[t_i] + a, off[t2] + a2, BT[float(d.order)], None))
    return nodes, edges, off


def kind_of(data):
    ks = [k for k in ("static", "stochastic", "termination", "transition") if data.get(k + "_weight", 0) not in (0, 0.0, None)]
    return ks


def check(acc, m: Mol, sz, rebuild=False):
    import gbigsmiles

    text = m.text(False)
    status, obj = probe.guarded(gbigsmiles.Molecule, text)
    if status != "ok":
        acc.count("parse_dropped")
        return
    rebuild = int(rebuild)
    case = {"text": text, "ast": m.to_json(), "sz": sz, "rebuild": rebuild}
    if rebuild == 2:
        # the graph must not depend on what was built or generated from the same object before
        import numpy as np
        probe.guarded(lambda: obj.gen_stochastic_atom_graph(expect_schulz_zimm_distribution=not sz), seconds=60)
        probe.guarded(obj.gen_reaction_graph, seconds=60)
        probe.guarded(lambda: obj.generate(rng=np.random.default_rng(0)), seconds=60)
        probe.guarded(lambda: obj.gen_stochastic_atom_graph(expect_schulz_zimm_distribution=sz), seconds=60)
        acc.label("history_before_graph")
    status, sag = probe.guarded(lambda: obj.gen_stochastic_atom_graph(expect_schulz_zimm_distribution=sz), seconds=60)
    lists = any(b.transitions for t in m.tokens for b in t.bds)
    sig0 = {"lists": bool(lists)}
    if status != "ok":
        acc.case(None, labels=["graph_raised"])
        acc.violation("graph_raises", f"gen_stochastic_atom_graph({sz}) of {text!r} raised {sag!r}", case, {**sig0, "error": type(sag).__name__ if status == "raise" else status}, size=len(text))
        return
    if rebuild == 1:
        # building the graph again on the same object must give the same graph
        st_r, _ = probe.guarded(sag.generate, seconds=60)
        if st_r != "ok":
            acc.violation("graph_raises", f"second generate() on the stochastic atom graph of {text!r} raised {_!r}", case, sig0, size=len(text))
            return
        acc.label("rebuilt_on_same_object")
    G = sag.graph
    try:
        nodes, exp, off = expected(m)
    except Exception as exc:  # noqa: BLE001
        acc.count("reference_fragment_problem_dropped")
        return
    # ---- nodes
    got_nodes = []
    for n in sorted(G.nodes()):
        d = G.nodes[n]
        got_nodes.append((d.get("atomic_num"), d.get("formal_charge"), bool(d.get("aromatic"))))
    if sorted(G.nodes()) != list(range(len(nodes))) or got_nodes != nodes:
        k = next((i for i, (a, b) in enumerate(zip(got_nodes, nodes)) if a != b), min(len(got_nodes), len(nodes)))
        acc.violation("nodes", f"{text!r}: {len(got_nodes)} nodes, notation has {len(nodes)} atoms; first difference at node {k}: "
                      f"{got_nodes[k] if k < len(got_nodes) else None} vs {nodes[k] if k < len(nodes) else None}", case, sig0, size=len(text))
        return
    if sz:
        stoch_params = {}
        for n in G.nodes():
            if "mn" not in G.nodes[n] or "mw" not in G.nodes[n]:
                acc.violation("mn_mw", f"{text!r}: node {n} lacks mn/mw although a Schulz-Zimm graph was requested", case, sig0, size=len(text))
                break
    # ---- edges
    got = {"static": [], "stochastic": [], "termination": [], "transition": []}
    for u, v, data in G.edges(data=True):
        ks = kind_of(data)
        if not ks:
            continue  # all-zero edge
        if len(ks) > 1:
            acc.violation("edge_kinds", f"{text!r}: edge {u}->{v} carries several kinds {ks}", case, sig0, size=len(text))
            continue
        k = ks[0]
        got[k].append((u, v, int(data.get("bond_type", -1)), float(data[k + "_weight"])))
    has_all = all(exp[k] for k in ("stochastic", "termination", "transition"))
    acc.case(text if has_all else None, labels=["arche:" + a for a in m.arche.split("+")] + [f"sz:{sz}", f"lists:{lists}"])
    tok_of = []
    for t_i, t in enumerate(m.tokens):
        tok_of += [t_i] * len(t.atoms)

    def role(node):
        t_i = tok_of[node]
        k = 0
        for e in m.elements:
            if isinstance(e, Tok):
                if t_i == k:
                    return "token"
                k += 1
            else:
                if t_i < k + len(e.repeat):
                    return "repeat"
                k += len(e.repeat)
                if t_i < k + len(e.end):
                    return "end"
                k += len(e.end)
        return "?"

    for kind in ("static", "stochastic", "termination", "transition"):
        with_w = kind in ("static", "stochastic")
        e_set = sorted((u, v, bt, round(w, 9) if with_w else 0) for u, v, bt, w in exp[kind])
        g_set = sorted((u, v, bt, round(w, 9) if with_w else 0) for u, v, bt, w in got[kind])
        if e_set == g_set:
            continue
        from collections import Counter
        ce, cg = Counter(e_set), Counter(g_set)
        missing = list((ce - cg).elements())
        surplus = list((cg - ce).elements())
        if missing:
            u, v, bt, w = missing[0]
            acc.violation("edge_missing", f"{text!r}: {kind} edge {u}->{v} (atoms of {m.tokens[tok_of[u]].text_ext} / {m.tokens[tok_of[v]].text_ext}), bond type {bt}"
                          + (f", weight {w}" if with_w else "") + f" is missing ({len(missing)} missing, {len(surplus)} surplus of this kind)", case,
                          {**sig0, "kind": kind}, size=len(text))
        if surplus:
            u, v, bt, w = surplus[0]
            acc.violation("edge_surplus", f"{text!r}: surplus {kind} edge {u}->{v} ({role(u)} atom of {m.tokens[tok_of[u]].text_ext} -> {role(v)} atom of "
                          f"{m.tokens[tok_of[v]].text_ext}), bond type {bt}" + (f", weight {w}" if with_w else "") + f" ({len(surplus)} surplus, {len(missing)} missing)", case,
                          {**sig0, "kind": kind, "from": role(u), "to": role(v)}, size=len(text))
    if acc.evaluations % 97 == 0:
        acc.sample({"molecule": text, "schulz_zimm": sz, "nodes": len(nodes), "edges": {k: len(v) for k, v in exp.items()}})


def run_shard(cfg):
    acc = Acc()
    n = max(1, SIZES[cfg["tier"]] // cfg["nshards"])
    drive(st.tuples(mol_case(), st.sampled_from([0, 0, 1, 2])), lambda x: check(acc, x[0][0], x[0][1], x[1]), n, cfg["seed"])
    return acc


def shrink_candidates(case):
    """smaller molecules of the same kind (fewer units / end groups, lists and weights removed), still inside the domain"""
    from ..shrink import mol_candidates
    for ast, text in mol_candidates(case["ast"], need_well_posed=False):
        yield {**case, "ast": ast, "text": text}


def replay(case, rec):
    acc = Acc()
    check(acc, Mol.from_json(case["ast"]), case["sz"], case.get("rebuild", False))
    return acc
