"""C20 - force-field typing is total, element-consistent, numbering- and history-free.

Domain: generated molecules restricted to chemistry the bundled OPLS rules cover (C, N, O, F, Cl, aromatic rings) plus
deliberately untypable ones; random atom renumberings; typing histories mixing default files, explicit copies of the
bundled files (written to a per-case temporary directory) and partially generated molecules.
Oracle: success => exactly one parameter set per atom of the H-added molecule whose mass is the element's mass; else
the dedicated FfAssignmentError carrying the partial assignment and the molecule; partial molecules are refused;
metamorphic: a renumbered copy gets the same parameters atom by atom; differential: the result after any history
equals the result of a pristine fork; copies of the bundled files give the default result.
"""
import os
import shutil
import tempfile

import numpy as np
from hypothesis import strategies as st
from rdkit import Chem

from .. import probe, reflaw
from ..acc import Acc
from ..baseline import Baseline
from ..hyp import drive
from ..strategies import molecules

ID = "C20"
LEVEL = "exploration"
RULE = ("histories of 3-7 typing calls over 2-3 generated molecules (force-field chemistry, some untypable on purpose, some partially "
        "generated with open descriptors of weight 0 / 1 / 2), each call with default files, explicit copies of both bundled files, or "
        "a renumbered copy of the molecule; non-trivial = history with an explicit-file call before a default call, or a molecule with "
        ">=3 element kinds; distinct = (SMILES of the molecules, history shape)")
ASSUMPTIONS = ["element masses from RDKit's periodic table, tolerance 0.05",
               "the pristine baseline is a fork of a template process that imported gbigsmiles and typed nothing",
               "parameter sets are compared by their repr (all dataclass fields)"]

SIZES = {"quick": 1600, "thorough": 40000}
PARTIAL = ["CC{[>][<]CC[>%s][<]}|uniform(40, 90)|", "C{[$] [$]C(CC[<])C[$2%s], [>]CC[<]; [>][H] [$2]}|uniform(60,100)|",
           "OC{[>][<]C(C)C[>%s][<]}|gauss(80, 10)|"]
_CTX = {}


def plan(tier, seed):
    return [{} for _ in range(16)]


@st.composite
def history(draw):
    nm = draw(st.integers(2, 3))
    mols = []
    for _ in range(nm):
        k = draw(st.integers(0, 9))
        if k == 0:
            w = draw(st.sampled_from(["", "|0|", "|2|", "|0.0|"]))
            mols.append(("partial", draw(st.sampled_from(PARTIAL)) % w, draw(st.integers(0, 50))))
        elif k == 1:
            m = draw(molecules(max_blocks=1, max_atoms=4, small=True, chem="any"))
            mols.append(("any", m, draw(st.integers(0, 50))))
        else:
            # tokens large enough for the ring motifs (benzene, pyridine, thiophene, furan, pyrimidine, N-substituted imidazole)
            m = draw(molecules(max_blocks=2, max_atoms=draw(st.sampled_from([5, 7, 8, 9])), small=True, chem="ff"))
            mols.append(("ff", m, draw(st.integers(0, 50))))
    ops = []
    for _ in range(draw(st.integers(3, 7))):
        ops.append((draw(st.integers(0, nm - 1)), draw(st.sampled_from(["default", "default", "copies", "renumbered", "property"])),
                    draw(st.integers(0, 2**31 - 1))))
    return mols, ops


def _ring_labels(mols):
    """which aromatic ring motifs occur in the tokens of the history's molecules (from the AST, not from the text)"""
    out = set()
    for kind, m, _ in mols:
        if kind == "partial":
            continue
        for t in m.tokens:
            aro = [a for a in t.atoms if a in ("c", "n", "s", "o")]
            if not aro:
                continue
            if aro.count("n") >= 2:
                out.add("ring:imidazole_or_pyrimidine")
            elif "n" in aro:
                out.add("ring:pyridine")
            elif "s" in aro:
                out.add("ring:thiophene")
            elif "o" in aro:
                out.add("ring:furan")
            else:
                out.add("ring:benzene")
    return sorted(out)


def element_mass(z):
    return Chem.GetPeriodicTable().GetAtomicWeight(int(z))


def summarize(ff, mol):
    return [[a.GetIdx(), a.GetAtomicNum(), repr(ff[a.GetIdx()])] for a in mol.GetAtoms()]


def run_history(acc, mols, ops):
    import gbigsmiles
    from gbigsmiles.forcefield_helper import FfAssignmentError, get_assignment_class
    from importlib.resources import files

    base = _CTX["base"]
    tmp = tempfile.mkdtemp(prefix="gbsv_ff_")
    try:
        par = os.path.join(tmp, "my_opls.par")
        itp = os.path.join(tmp, "my_ffnonbonded.itp")
        shutil.copy(str(files("gbigsmiles").joinpath("data", "opls.par")), par)
        shutil.copy(str(files("gbigsmiles").joinpath("data", "ffnonbonded.itp")), itp)
        gens = []
        texts = []
        for kind, m, k in mols:
            text = m if kind == "partial" else m.text(False)
            if kind != "partial":
                ok, _ = reflaw.well_posed(m)
                if not ok:
                    acc.count("ill_posed_history_dropped")
                    return
            st_, obj = probe.guarded(gbigsmiles.Molecule, text)
            if st_ != "ok":
                acc.count("parse_dropped")
                return
            st_, mg = probe.guarded(lambda: obj.generate(rng=np.random.default_rng(k)), seconds=120)
            if st_ != "ok":
                acc.count("generation_dropped")
                return
            gens.append(mg)
            texts.append(text)
        shape = []
        explicit_before_default = False
        seen_explicit = False
        for mi, how, seed in ops:
            kind, m, k = mols[mi]
            mg = gens[mi]
            text = texts[mi]
            case = {"molecules": [[t, kk] for t, (_, _, kk) in zip(texts, mols)], "ops": [[a, b, c] for a, b, c in ops], "at": len(shape)}
            shape.append(how)
            if how == "copies":
                seen_explicit = True
            if how in ("default", "property") and seen_explicit:
                explicit_before_default = True
            try:
                full = bool(mg.fully_generated)
            except Exception:  # noqa: BLE001
                full = None
            sig = {"how": how, "kind": kind}

            def call():
                if how == "property":
                    return mg.forcefield_types
                if how == "copies":
                    return mg.get_forcefield_types(smarts_filename=par, nb_filename=itp)
                return mg.get_forcefield_types()
            if kind == "partial" and len(mg.bond_descriptors) > 0:
                st_, res = probe.guarded(call, seconds=120)
                if st_ == "ok":
                    acc.violation("partial_refused", f"typing the partially generated molecule of {text!r} (open descriptors "
                                  f"{[str(b) for b in mg.bond_descriptors]}, fully_generated={full}) returned an assignment", case, sig, size=len(text))
                elif st_ == "raise" and not isinstance(res, RuntimeError):
                    acc.violation("partial_refused_error", f"typing a partially generated molecule raised {res!r} instead of RuntimeError", case, sig, size=len(text))
                continue
            if how == "renumbered":
                # metamorphic: type a renumbered copy through the public assigner and map back
                st0, r0 = probe.guarded(lambda: mg.get_forcefield_types(), seconds=120)
                if st0 != "ok":
                    continue
                ff0, mol0 = r0
                rng = np.random.default_rng(seed)
                perm = [int(x) for x in rng.permutation(mol0.GetNumAtoms())]
                mol1 = Chem.RenumberAtoms(mol0, perm)  # new atom i is old atom perm[i]
                st1, ff1 = probe.guarded(lambda: get_assignment_class(None, None).get_type_assignments(mol1), seconds=120)
                if st1 != "ok":
                    acc.violation("renumbering", f"{mg.smiles}: typing succeeds, typing a renumbered copy raised {ff1!r}", case, sig, size=len(text))
                    continue
                for i in range(mol1.GetNumAtoms()):
                    if repr(ff1.get(i)) != repr(ff0.get(perm[i])):
                        acc.violation("renumbering", f"{mg.smiles}: atom {perm[i]} ({mol0.GetAtomWithIdx(perm[i]).GetSymbol()}) gets {ff0.get(perm[i])!r}, "
                                      f"as atom {i} of a renumbered copy {ff1.get(i)!r}", case, sig, size=len(text))
                        break
                continue
            st_, res = probe.guarded(call, seconds=120)
            expected = base.ask(op="ff", text=text, k=k, cls="Molecule")
            if st_ == "ok":
                ff, mol = res
                n = mol.GetNumAtoms()
                if sorted(ff.keys()) != list(range(n)):
                    acc.violation("total", f"{mg.smiles}: assignment has {len(ff)} entries for {n} atoms (hydrogens included)", case, sig, size=len(text))
                else:
                    for a in mol.GetAtoms():
                        p = ff[a.GetIdx()]
                        if abs(float(p.mass) - element_mass(a.GetAtomicNum())) > 0.05:
                            acc.violation("element_mass", f"{mg.smiles}: atom {a.GetIdx()} ({a.GetSymbol()}) got a parameter set of mass {p.mass}", case, sig, size=len(text))
                            break
                    got = ["ok", summarize(ff, mol)]
                    if expected[0] == "ok" and got[1] != expected[1]:
                        d = next((x, y) for x, y in zip(got[1], expected[1]) if x != y)
                        acc.violation("history_free" if how != "copies" else "copies_equal_defaults",
                                      f"{mg.smiles} ({how}): atom {d[0][0]} typed {d[0][2]}, the pristine default typing gives {d[1][2]}", case, sig, size=len(text))
                    elif expected[0] == "raise":
                        acc.violation("history_free" if how != "copies" else "copies_equal_defaults",
                                      f"{mg.smiles} ({how}): typed here, but the pristine default typing raises {expected[1]}", case, sig, size=len(text))
            elif st_ == "raise":
                if isinstance(res, FfAssignmentError):
                    inc = getattr(res, "incomplete_ff_dict", None)
                    if not isinstance(inc, dict) or getattr(res, "mol", None) is None:
                        acc.violation("error_carries_partial", f"{mg.smiles}: FfAssignmentError without partial assignment / molecule", case, sig, size=len(text))
                    if expected[0] == "ok":
                        acc.violation("history_free" if how != "copies" else "copies_equal_defaults",
                                      f"{mg.smiles} ({how}): FfAssignmentError here, the pristine default typing succeeds", case, sig, size=len(text))
                else:
                    # a molecule that does not pass chemical sanitisation cannot be typed at all; that is C05's subject (a
                    # generated molecule sanitises), not a statement about the typer
                    try:
                        mg.mol
                        smi = mg.smiles
                    except Exception as exc_mol:  # noqa: BLE001
                        acc.count("molecule_does_not_sanitise_dropped(C05's business)")
                        if len(acc.samples) < 14:
                            acc.sample({"not_sanitisable": text, "seed": [kk for _, _, kk in mols], "error": repr(exc_mol)[:150]})
                        continue
                    acc.violation("dedicated_error" if how != "copies" else "copies_equal_defaults",
                                  f"{smi} ({how}): typing raised {res!r} (expected an assignment or FfAssignmentError)", case, {**sig, "error": type(res).__name__}, size=len(text))
        kinds = set()
        for mg in gens:
            try:
                kinds |= {a.GetAtomicNum() for a in mg.mol.GetAtoms()}
            except Exception:  # noqa: BLE001
                pass
        nontrivial = explicit_before_default or len(kinds) >= 3
        acc.case((tuple(texts), tuple(shape)) if nontrivial else None, labels=["op:" + h for h in shape] + ["mol:" + k for k, _, _ in mols] +
                 _ring_labels(mols))
        if acc.evaluations % 11 == 0:
            acc.sample({"molecules": texts, "history": shape})
    finally:
        shutil.rmtree(tmp, ignore_errors=True)


def run_shard(cfg):
    acc = Acc()
    n = max(1, SIZES[cfg["tier"]] // cfg["nshards"])
    _CTX["base"] = Baseline()
    try:
        drive(history(), lambda x: run_history(acc, x[0], x[1]), n, cfg["seed"])
    finally:
        _CTX["base"].close()
    return acc


def replay(case, rec):
    """re-run a recorded history (molecule strings + seeds + ops)"""
    acc = Acc()
    _CTX["base"] = Baseline()
    try:
        mols = [("partial" if "%s" not in t and t.split("|")[0] in [p.split("%s")[0] for p in PARTIAL] else "replay", t, k) for t, k in case["molecules"]]

        class _M:
            def __init__(self, t):
                self.t = t

            def text(self, _):
                return self.t
        import gbsv.reflaw as rl
        old = rl.well_posed
        rl.well_posed = lambda m, **kw: (True, "")
        try:
            mols2 = [(k if k == "partial" else "ff", (t if k == "partial" else _M(t)), kk) for k, t, kk in mols]
            run_history(acc, mols2, [tuple(o) for o in case["ops"]])
        finally:
            rl.well_posed = old
    finally:
        _CTX["base"].close()
    return acc
