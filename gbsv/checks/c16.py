"""C16 - the reaction graph states the generator's probabilities, normalised at every node.

Domain: generated molecules of every archetype (weights, lists, ids, left terminals with weights / lists, explicit
connectors with weighted descriptors, zero-weight hand-over descriptors).
Oracle: reference selection law (gbsv/reflaw.py) evaluated per descriptor: reaction (repeat units), termination (end
groups), inter-element transition (next element, through the terminal convention and the left terminal's weight /
list); compared edge by edge; sums in {absent, 1} at EVERY node; p > 0 edges join compatible descriptors only.
"""
from hypothesis import strategies as st

from .. import probe, reflaw
from ..acc import Acc
from ..ast import BD, Mol, Stoch, Tok
from ..hyp import drive
from ..strategies import molecules

ID = "C16"
LEVEL = "exploration"
RULE = ("generated molecules of all archetypes (1-3 blocks, lists, ids, weighted terminals, explicit weighted connectors); every "
        "descriptor node's prob / term_prob / trans_prob edges against the reference law; non-trivial = molecule with >=2 elements, "
        "or a transition list, or unequal weights among the options of some descriptor; distinct = canonical molecule string")
ASSUMPTIONS = ["reference law of gbsv/reflaw.py (the same that C08 validates against the real generator on bounded instances)",
               "graph nodes are mapped to the AST through Molecule.residues (written order) and the position of a descriptor in its token",
               "decisions whose admissible options all have weight zero are skipped on both sides"]

SIZES = {"quick": 3000, "thorough": 150000}
TOL = 1e-9


def plan(tier, seed):
    return [{} for _ in range(16)]


def expected(mol: Mol):
    """per descriptor (token index, slot): dict kind -> {(token index, slot): p} ; None = skip (all-zero decision)"""
    toks = mol.tokens
    index = {}
    ti = 0
    where = []  # token index -> (element index, role)
    for ei, e in enumerate(mol.elements):
        if isinstance(e, Tok):
            where.append((ei, "tok"))
        else:
            where += [(ei, "repeat")] * len(e.repeat) + [(ei, "end")] * len(e.end)
    first_tok = {}
    for t_i, (ei, role) in enumerate(where):
        first_tok.setdefault(ei, t_i)

    def obj_desc(ei):
        """list of (token index, slot, BD, role) of a stochastic element in object order"""
        out = []
        for t_i, (e2, role) in enumerate(where):
            if e2 == ei:
                for s_, (a, b) in enumerate(toks[t_i].atts):
                    out.append((t_i, s_, b, role))
        return out

    def norm(pairs):
        pairs = [(k, w) for k, w in pairs]
        if not pairs:
            return {}
        ws = [w for _, w in pairs]
        if all(w == 0 for w in ws):
            return None
        tot = sum(ws)
        return {k: w / tot for k, w in pairs if w > 0}

    exp = {}
    for t_i, t in enumerate(toks):
        ei, role = where[t_i]
        e = mol.elements[ei]
        for s_, (a, d) in enumerate(t.atts):
            out = {"prob": {}, "term_prob": {}, "trans_prob": {}}
            if isinstance(e, Stoch):
                od = obj_desc(ei)
                if d.transitions is not None:
                    tot = sum(d.transitions)
                    out["prob"] = {(x[0], x[1]): p / tot for x, p in zip(od, d.transitions) if p > 0}
                else:
                    out["prob"] = norm([((x[0], x[1]), x[2].w) for x in od if x[3] == "repeat" and d.compatible(x[2])])
                    out["term_prob"] = norm([((x[0], x[1]), x[2].w) for x in od if x[3] == "end" and d.compatible(x[2])])
            # transitions into the next element
            if ei < len(mol.elements) - 1:
                nxt = mol.elements[ei + 1]
                src_ok = True
                if isinstance(e, Stoch):
                    want = BD(e.right.symbol, e.right.id, None, d.order) if e.right.symbol else None
                    src_ok = role == "repeat" and want is not None and want.compatible(d)
                if src_ok:
                    if isinstance(nxt, Tok):
                        n_i = first_tok[ei + 1]
                        out["trans_prob"] = norm([((n_i, k), b.w) for k, (aa, b) in enumerate(nxt.atts) if d.compatible(b)])
                    else:
                        od = obj_desc(ei + 1)
                        # the descriptor that enters the object carries the left terminal's weight / list
                        if (d.symbol, d.id) != (nxt.left.symbol, nxt.left.id):
                            out["trans_prob"] = {}
                        elif nxt.left.transitions is not None:
                            tot = sum(nxt.left.transitions)
                            out["trans_prob"] = {(x[0], x[1]): p / tot for x, p in zip(od, nxt.left.transitions) if p > 0}
                        else:
                            out["trans_prob"] = norm([((x[0], x[1]), x[2].w) for x in od if x[3] == "repeat" and d.compatible(x[2])])
            exp[(t_i, s_)] = out
    return exp


def check(acc, m: Mol, history=0):
    import gbigsmiles

    text = m.text(False)
    status, obj = probe.guarded(gbigsmiles.Molecule, text)
    if status != "ok":
        acc.count("parse_dropped")
        return
    res = list(obj.residues)
    if len(res) != len(m.tokens):
        acc.count("token_count_mismatch_dropped")
        return
    case = {"text": text, "ast": m.to_json(), "history": history}
    if history in (1, 2):
        # the graph must not depend on what was generated from the object before
        import numpy as np
        ok_wp, _ = reflaw.well_posed(m)
        if ok_wp:
            for k in range(history):
                probe.guarded(lambda: obj.generate(rng=np.random.default_rng(k)), seconds=60)
            acc.label("history:generate_before_graph")
    elif history >= 3:
        # ... nor on graphs (reaction graph, atom graph) built from the same object before
        for k in range(history - 2):
            probe.guarded(obj.gen_reaction_graph, seconds=60)
            if k:
                probe.guarded(lambda: obj.gen_stochastic_atom_graph(expect_schulz_zimm_distribution=False), seconds=60)
        acc.label("history:graph_before_graph")
    status, G = probe.guarded(obj.gen_reaction_graph, seconds=60)
    unequal = any(len({b.w for b in e.repeat_bds}) > 1 or len({b.w for b in e.end_bds}) > 1 for e in m.elements if isinstance(e, Stoch))
    has_list = any(b.transitions for t in m.tokens for b in t.bds) or any(isinstance(e, Stoch) and e.left.transitions for e in m.elements)
    acc.case(text if (len(m.elements) >= 2 or has_list or unequal) else None,
             labels=["arche:" + a for a in m.arche.split("+")] + [f"lists:{bool(has_list)}"])
    left_list = any(isinstance(e, Stoch) and e.left.transitions for e in m.elements)
    left_weight = any(isinstance(e, Stoch) and e.left.weight is not None and not e.left.transitions for e in m.elements)
    sig0 = {"left_terminal_list": bool(left_list)}
    if status != "ok":
        acc.violation("graph_raises", f"gen_reaction_graph of {text!r} raised {G!r}", case, {**sig0, "error": type(G).__name__ if status == "raise" else status}, size=len(text))
        return
    # node set
    node_of = {}
    for t_i, r in enumerate(res):
        node_of[id(r)] = ("tok", t_i)
        for s_, bd in enumerate(r.bond_descriptors):
            node_of[id(bd)] = ("bd", t_i, s_)
    nodes = list(G.nodes())
    unknown = [n for n in nodes if id(n) not in node_of]
    ntok = sum(1 for n in nodes if node_of.get(id(n), ("?",))[0] == "tok")
    nbd = sum(1 for n in nodes if node_of.get(id(n), ("?",))[0] == "bd")
    if unknown or ntok != len(res) or nbd != sum(len(t.atts) for t in m.tokens):
        acc.violation("node_set", f"reaction graph of {text!r}: {ntok} token nodes / {nbd} descriptor nodes / {len(unknown)} other, "
                      f"notation has {len(res)} tokens and {sum(len(t.atts) for t in m.tokens)} descriptors", case, sig0, size=len(text))
        return
    exp = expected(m)
    toks = m.tokens
    for n in nodes:
        info = node_of[id(n)]
        if info[0] == "tok":
            # atom edges
            for _, v, data in G.out_edges(n, data=True):
                if "atom" in data and id(v) in node_of and node_of[id(v)][0] == "bd":
                    _, t_i, s_ = node_of[id(v)]
                    if t_i == info[1] and data["atom"] != toks[t_i].atts[s_][0]:
                        acc.violation("atom_edge", f"{text!r}: token {toks[t_i].text_ext} -> descriptor {s_}: atom {data['atom']}, notation {toks[t_i].atts[s_][0]}", case, sig0, size=len(text))
            continue
        _, t_i, s_ = info
        d = toks[t_i].atts[s_][1]
        got = {"prob": {}, "term_prob": {}, "trans_prob": {}}
        sums = {"prob": None, "term_prob": None, "trans_prob": None}
        for _, v, data in G.out_edges(n, data=True):
            for kind in got:
                if kind in data:
                    p = float(data[kind])
                    sums[kind] = (sums[kind] or 0.0) + p
                    if p > 0:
                        tgt = node_of.get(id(v))
                        key = (tgt[1], tgt[2]) if tgt and tgt[0] == "bd" else ("?", repr(v))
                        got[kind][key] = got[kind].get(key, 0.0) + p
                        if tgt and tgt[0] == "bd":
                            d2 = toks[tgt[1]].atts[tgt[2]][1]
                            if not d.compatible(d2):
                                acc.violation("compatible_only", f"{text!r}: {kind} edge {p:.4g} from {d.text()} to incompatible {d2.text()}", case, {**sig0, "kind": kind}, size=len(text))
        for kind in got:
            e = exp[(t_i, s_)][kind]
            if e is None:
                acc.count("all_zero_decision_skipped")
                continue
            sm = sum(got[kind].values())
            if got[kind] and abs(sm - 1.0) > 1e-6:
                acc.violation("sums_to_one", f"{text!r}: {kind} from descriptor {s_} of {toks[t_i].text_ext} sums to {sm:.6g}: "
                              f"{ {k: round(v, 4) for k, v in got[kind].items()} }", case, {**sig0, "kind": kind}, size=len(text))
                continue
            keys = set(e) | set(got[kind])
            diff = [k for k in keys if abs(e.get(k, 0.0) - got[kind].get(k, 0.0)) > TOL]
            if diff:
                k = diff[0]
                # an absent class is tolerated for descriptors that generation never uses as a source of that kind
                if not got[kind] and kind == "term_prob" and False:
                    continue
                tgt_txt = f"descriptor {k[1]} of {toks[k[0]].text_ext}" if k[0] != "?" else str(k)
                acc.violation("edge_probability", f"{text!r}: {kind} from descriptor {s_} ({d.text()}) of {toks[t_i].text_ext} to {tgt_txt}: "
                              f"graph {got[kind].get(k, 0.0):.6g}, generation picks with {e.get(k, 0.0):.6g}", case,
                              {**sig0, "kind": kind, "graph_has_class": bool(got[kind]), "law_has_class": bool(e)}, size=len(text))
    if acc.evaluations % 101 == 0:
        acc.sample({"molecule": text, "nodes": len(nodes), "edges": G.number_of_edges()})


def run_shard(cfg):
    acc = Acc()
    n = max(1, SIZES[cfg["tier"]] // cfg["nshards"])
    drive(st.tuples(molecules(max_blocks=3, max_atoms=4, small=True), st.sampled_from([0, 0, 1, 2, 3, 4])), lambda x: check(acc, x[0], x[1]), n, cfg["seed"])
    return acc


def shrink_candidates(case):
    """smaller molecules of the same kind (fewer units / end groups, lists and weights removed), still inside the domain"""
    from ..shrink import mol_candidates
    for ast, text in mol_candidates(case["ast"], need_well_posed=False):
        yield {**case, "ast": ast, "text": text}


def replay(case, rec):
    acc = Acc()
    check(acc, Mol.from_json(case["ast"]), case.get("history", 0))
    return acc
