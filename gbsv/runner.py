"""Runner: tiers, seeds, 16-way sharding, known findings, replay files, evidence.

usage: python -m gbsv.runner <ID> [--tier quick|thorough] [--replay FILE] [--shards N]

exit 0  property held on everything explored (KNOWN-FINDING lines may be printed)
exit 1  + line  VIOLATION property=<id> replay=<path>
exit 2  harness error / cannot observe  (never a VIOLATION)
"""
import argparse
import hashlib
import importlib
import json
import multiprocessing as mp
import os
import sys
import time
import traceback

from . import env
from .acc import Acc

VERIF = env.VERIF_ROOT


def shard_seed(seed, prop, k):
    h = hashlib.sha256(f"{seed}/{prop}/{k}".encode()).digest()
    return int.from_bytes(h[:8], "big") % (2**63)


def _load_known(prop):
    path = os.path.join(VERIF, "known_findings.json")
    if not os.path.exists(path):
        return []
    with open(path) as fh:
        data = json.load(fh)
    return [e for e in data.get("findings", []) if e.get("property") == prop and e.get("status") == "open"]


def _matches(entry, viol):
    """A known finding matches a violation iff oracle is equal and every key of entry['match'] is equal in sig."""
    if entry.get("oracle") != viol["oracle"]:
        return False
    for k, v in entry.get("match", {}).items():
        if viol["sig"].get(k) != v:
            return False
    return True


def _run_shard(args):
    modname, cfg = args
    try:
        mod = importlib.import_module(modname)
        env.import_repo()
        acc = mod.run_shard(cfg)
        from . import hyp
        for name, k in hyp.DROPPED.items():
            acc.count("harness_exception_case_dropped:" + name, k)
        if hyp.FIRST_TRACEBACK:
            acc.extra.setdefault("harness_exception_first_traceback", hyp.FIRST_TRACEBACK[0])
        return ("ok", acc.to_dict())
    except env.HarnessError as exc:
        return ("harness", f"{exc}")
    except BaseException:  # noqa: BLE001 - a crash of the harness itself must never look like a verdict
        return ("harness", traceback.format_exc())


def main(argv=None):
    ap = argparse.ArgumentParser()
    ap.add_argument("prop")
    ap.add_argument("--tier", default=os.environ.get("VERIF_TIER", "quick"), choices=["quick", "thorough"])
    ap.add_argument("--replay", default=None)
    ap.add_argument("--shards", type=int, default=None)
    ns = ap.parse_args(argv)
    prop = ns.prop.upper()
    seed = int(os.environ.get("VERIF_SEED", "1") or "1")
    t0 = time.time()
    modname = f"gbsv.checks.{prop.lower()}"
    try:
        env.import_repo()
        mod = importlib.import_module(modname)
    except env.HarnessError as exc:
        print(f"HARNESS-ERROR property={prop}: {exc}")
        return 2
    except Exception:
        print(f"HARNESS-ERROR property={prop}: cannot load check\n{traceback.format_exc()}")
        return 2

    if ns.replay:
        return _replay(mod, prop, ns.replay)

    cfgs = mod.plan(ns.tier, seed)
    if ns.shards:
        cfgs = cfgs[: ns.shards]
    for k, c in enumerate(cfgs):
        c.setdefault("shard", k)
        c.setdefault("tier", ns.tier)
        c.setdefault("seed", shard_seed(seed, prop, k))
        c.setdefault("nshards", len(cfgs))
    nproc = min(len(cfgs), int(os.environ.get("VERIF_PROCS", "16")))
    results = []
    if nproc <= 1:
        results = [_run_shard((modname, c)) for c in cfgs]
    else:
        # hard watchdog: a shard that never returns (e.g. the library under test stuck inside a C extension, where the in-process
        # guards cannot interrupt) must not hang the check; the finished shards are still evaluated
        cap = float(os.environ.get("VERIF_WALL_CAP", "780" if ns.tier == "quick" else "14400"))
        ctx = mp.get_context("fork")
        pool = ctx.Pool(nproc, maxtasksperchild=1)
        try:
            handles = [pool.apply_async(_run_shard, ((modname, c),)) for c in cfgs]
            t_cap = t0 + cap
            results, killed = [], 0
            for h in handles:
                try:
                    results.append(h.get(timeout=max(1.0, t_cap - time.time())))
                except mp.TimeoutError:
                    killed += 1
        finally:
            pool.terminate()
            pool.join()
        if killed:
            print(f"WATCHDOG property={prop}: {killed} of {len(cfgs)} shard(s) did not return within {cap:.0f} s and were terminated")
            if not results:
                print(f"HARNESS-ERROR property={prop}: no shard finished")
                return 2
            results.append(("ok", {"evaluations": 0, "nontrivial": [], "labels": {}, "samples": [], "violations": {}, "viol_counts": {},
                                   "counters": {"shards_terminated_by_watchdog": killed}, "extra": {}}))
    bad = [r[1] for r in results if r[0] != "ok"]
    if bad:
        print(f"HARNESS-ERROR property={prop}: {len(bad)} shard(s) failed\n{bad[0]}")
        return 2
    acc = Acc.merge([r[1] for r in results])
    if hasattr(mod, "finish"):
        try:
            mod.finish(acc, ns.tier, seed)
        except env.HarnessError as exc:
            print(f"HARNESS-ERROR property={prop}: {exc}")
            return 2
        except Exception:
            print(f"HARNESS-ERROR property={prop}: finish failed\n{traceback.format_exc()}")
            return 2

    known = _load_known(prop)
    fired = {e["id"]: 0 for e in known}
    unknown = []
    for bucket, lst in acc.violations.items():
        n = acc.viol_counts.get(bucket, len(lst))
        ent = next((e for e in known if _matches(e, lst[0])), None)
        if ent is not None:
            fired[ent["id"]] += n
        else:
            unknown.append((bucket, n, lst[0]))

    for e in known:
        print(f"KNOWN-FINDING: property={prop} {e['id']}: {e['what']} (matched {fired[e['id']]} case(s) in this run)")

    replay_paths = []
    os.makedirs(os.path.join(VERIF, "replays"), exist_ok=True)
    from . import shrink
    budget = {"quick": (40, 45.0), "thorough": (400, 600.0)}[ns.tier]
    for bucket, n, v in sorted(unknown, key=lambda t: t[2]["size"]):
        name = f"{prop}_{hashlib.sha1(bucket.encode()).hexdigest()[:10]}.json"
        path = os.path.join(VERIF, "replays", name)
        rec = {"property": prop, "oracle": v["oracle"], "sig": v["sig"], "message": v["message"],
               "case": v["case"], "count_in_run": n, "tier": ns.tier, "seed": seed}
        # shrink: smallest case of the bucket, then the module's own reductions while the same oracle keeps failing on replay
        if len(replay_paths) < 3 and os.environ.get("VERIF_NO_SHRINK") != "1":
            try:
                small, used, applied = shrink.minimise(mod, v["case"], rec, v["oracle"], *budget)
                if applied:
                    rec["unshrunk_case"] = v["case"]
                    rec["case"] = small
                rec["shrink"] = {"replays": used, "reductions": applied}
            except BaseException as exc:  # noqa: BLE001 - shrinking is a convenience, never a verdict
                rec["shrink"] = {"error": repr(exc)[:200]}
        with open(path, "w") as fh:
            json.dump(rec, fh, indent=1, default=str)
        replay_paths.append(path)
        print(f"VIOLATION property={prop} replay={path}")
        print(f"  oracle={v['oracle']} sig={json.dumps(v['sig'], default=str)} n={n}\n  {v['message'][:600]}")

    wall = time.time() - t0
    _write_evidence(mod, prop, ns.tier, seed, acc, wall, len(unknown), fired, len(cfgs))
    nt = len(acc.nontrivial)
    print(f"{prop} tier={ns.tier} seed={seed} evaluations={acc.evaluations} distinct_nontrivial={nt} "
          f"violations={len(unknown)} known_fired={sum(1 for v in fired.values() if v)} wall={wall:.1f}s")
    if unknown:
        return 1
    if acc.counters.get("shards_terminated_by_watchdog"):
        print(f"HARNESS-ERROR property={prop}: inconclusive - {acc.counters['shards_terminated_by_watchdog']} shard(s) were terminated by the watchdog and the others found no violation")
        return 2
    if not acc.samples:
        print(f"HARNESS-ERROR property={prop}: the run recorded no sample case for the evidence file")
        return 2
    if acc.evaluations == 0 or nt < 2:
        print(f"HARNESS-ERROR property={prop}: vacuous run (evaluations={acc.evaluations}, nontrivial={nt})")
        return 2
    return 0


def _write_evidence(mod, prop, tier, seed, acc, wall, nviol, fired, nshards):
    cov = {
        "evaluations": int(acc.evaluations),
        "distinct_nontrivial": len(acc.nontrivial),
        "rule": getattr(mod, "RULE", ""),
        "samples": acc.samples[:16] if acc.samples else ["<no sample recorded>"],
        "labels": dict(sorted(acc.labels.items(), key=lambda kv: -kv[1])),
        "counters": dict(sorted(acc.counters.items())),
        "shards": nshards,
        "exhaustive": bool(acc.extra.get("exhaustive", False)),
        "known_findings_fired": {k: v for k, v in fired.items()},
    }
    for k, v in acc.extra.items():
        if k not in cov:
            cov[k] = v
    ev = {
        "property_id": prop,
        "tier": tier,
        "seed": int(seed),
        "level": getattr(mod, "LEVEL", "exploration"),
        "coverage": cov,
        "assumptions": list(getattr(mod, "ASSUMPTIONS", [])),
        "wall_s": round(wall, 2),
        "violations": int(nviol),
        "repo_src": env.REPO_SRC,
    }
    # runs against another source tree (mutation runs) never touch the committed evidence
    evdir = "evidence" if env.REPO_SRC == "/repo/src" else "evidence_mut"
    os.makedirs(os.path.join(VERIF, evdir), exist_ok=True)
    path = os.path.join(VERIF, evdir, f"{prop}.json")
    tmp = path + ".tmp"
    with open(tmp, "w") as fh:
        json.dump(ev, fh, indent=1, default=str)
    os.replace(tmp, path)


def _replay(mod, prop, path):
    with open(path) as fh:
        rec = json.load(fh)
    if not hasattr(mod, "replay"):
        print(f"HARNESS-ERROR property={prop}: check has no replay()")
        return 2
    try:
        acc = mod.replay(rec["case"], rec)
    except env.HarnessError as exc:
        print(f"HARNESS-ERROR property={prop}: {exc}")
        return 2
    if acc.violations:
        for bucket, lst in acc.violations.items():
            v = lst[0]
            print(f"VIOLATION property={prop} replay={path}")
            print(f"  oracle={v['oracle']} sig={json.dumps(v['sig'], default=str)}\n  {v['message'][:1500]}")
        return 1
    print(f"{prop} replay {path}: no violation")
    return 0


if __name__ == "__main__":
    try:
        rc = main()
    except SystemExit:
        raise
    except BaseException:  # noqa: BLE001
        print(f"HARNESS-ERROR: {traceback.format_exc()}")
        rc = 2
    sys.stdout.flush()
    sys.exit(rc)
