"""Generation harness shared by C04-C08, C10, C13: parse an AST with the repository, generate under taps,
decompose the result into residue instances ("hint + verify")."""
import contextlib
from dataclasses import dataclass, field

from rdkit import Chem

from . import probe, refchem
from .ast import Mol, Stoch, Tok
from .env import HarnessError


def choice_limit(ast: Mol, targets):
    """Upper bound on the number of rng.choice calls a correct generation can make, given the targets drawn so far.
    Per unit: 2 choices + one throw-away finalisation (1 reservation + 2 per open descriptor); open descriptors grow by at
    most D-1 per unit.  Safety factor 3."""
    from . import refchem
    total = 20 + 4 * len(ast.elements)
    k = 0
    for e in ast.elements:
        if not isinstance(e, Stoch):
            continue
        if k >= len(targets):
            break
        T = max(0.0, float(targets[k]))
        k += 1
        masses = [refchem.heavy_mass(t) for t in e.repeat]
        pos = [x for x in masses if x > 0]
        mmin = min(pos) if pos else 1.0
        D = max(len(t.atts) for t in e.tokens)
        n = int(T / mmin) + 2
        opens = 2 + n * max(1, D - 1)
        # transition lists may instate end groups (no mass): each uses up one open descriptor
        n += opens
        total += n * (3 + 2 * opens) + 2 * opens + 5
    return 3 * total


@contextlib.contextmanager
def draw_tap(force=None, on_draw=None):
    """Class-level tap on every distribution's draw_mw.

    force: None (record only) or list of target values, used in call order (one per stochastic object).
    yields the list of (class name, parameters text, value) in call order."""
    import gbigsmiles.distribution as gd

    classes = [gd.Distribution] + [c for c in vars(gd).values()
                                   if isinstance(c, type) and issubclass(c, gd.Distribution) and c is not gd.Distribution]
    saved = []
    calls = []
    for c in classes:
        if "draw_mw" not in c.__dict__:
            continue
        orig = c.__dict__["draw_mw"]

        def mk(orig=orig):
            def draw_mw(self, rng=None):
                if force is not None:
                    v = force[min(len(calls), len(force) - 1)]
                else:
                    v = orig(self, rng)
                calls.append((type(self).__name__, str(self), float(v)))
                if on_draw is not None:
                    on_draw(calls)
                return v
            return draw_mw
        saved.append((c, orig))
        c.draw_mw = mk()
    if not saved:
        raise HarnessError("no draw_mw found on distribution classes (cannot observe targets)")
    try:
        yield calls
    finally:
        for c, orig in saved:
            c.draw_mw = orig


@dataclass
class Parsed:
    ast: Mol
    obj: object
    tok_index: dict  # id(repo token) -> index into ast.tokens
    tokens: list  # ast tokens in written order


def parse_mol(ast: Mol, text=None, seconds=20):
    import gbigsmiles

    text = ast.text(False) if text is None else text
    status, val = probe.guarded(gbigsmiles.Molecule, text, seconds=seconds)
    if status != "ok":
        return status, val
    obj = val
    try:
        res = list(obj.residues)
    except Exception as exc:  # noqa: BLE001
        return "raise", exc
    toks = ast.tokens
    idx = {}
    if len(res) == len(toks):
        for k, r in enumerate(res):
            idx[id(r)] = k
    return "ok", Parsed(ast, obj, idx, toks)


@dataclass
class GenResult:
    status: str  # ok | raise | timeout
    molgen: object = None
    exc: object = None
    events: list = field(default_factory=list)
    draws: list = field(default_factory=list)


def generate(parsed: Parsed, rng, targets=None, seconds=60, obj=None):
    obj = parsed.obj if obj is None else obj

    def on_draw(calls):
        if hasattr(rng, "limit"):
            rng.limit = choice_limit(parsed.ast, [c[2] for c in calls])
    if hasattr(rng, "limit"):
        rng.count = 0  # the budget is per generation
        rng.limit = choice_limit(parsed.ast, [])
    try:
        with probe.tag_residues(parsed.tok_index) as events, draw_tap(targets, on_draw) as draws:
            status, val = probe.guarded(obj.generate, rng=rng, seconds=seconds)
    except probe.ChoiceBudget as exc:
        return GenResult("budget", None, exc, [], [])
    if status == "ok":
        return GenResult("ok", val, None, events, draws)
    return GenResult(status, None, val, events, draws)


@dataclass
class Block:
    tok: int  # index into ast tokens
    off: int
    n: int


@dataclass
class Decomp:
    blocks: list
    links: list  # (block a, atom a (local), block b, atom b (local), order)
    problems: list  # list of (code, message)
    mol: object = None


def decompose(parsed: Parsed, molgen):
    """Blocks of atoms in creation order (hint: node attribute gbsv_tok), each verified in atom order against the
    reference fragment of its token; inter-block bonds listed."""
    probs = []
    raw = getattr(molgen, "_mol", None)
    try:
        g = molgen.graph
        nodes = sorted(g.nodes())
        hint = [g.nodes[n].get("gbsv_tok", None) for n in nodes]
    except Exception as exc:  # noqa: BLE001
        raise HarnessError(f"MolGen.graph not observable: {exc!r}")
    if any(h is None or h < 0 for h in hint):
        raise HarnessError("residue tags missing on MolGen.graph (cannot observe residue identity)")
    try:
        mol = molgen.mol  # sanitised copy
    except Exception as exc:  # noqa: BLE001
        return Decomp([], [], [("sanitize", f"MolGen.mol raised {exc!r}")], None)
    blocks = []
    off = 0
    for h in hint:
        t = parsed.tokens[h]
        blocks.append(Block(h, off, len(t.atoms)))
        off += len(t.atoms)
    if off != mol.GetNumAtoms():
        probs.append(("partition", f"atoms of residues sum to {off}, molecule has {mol.GetNumAtoms()}"))
        return Decomp(blocks, [], probs, mol)
    owner = {}
    for bi, b in enumerate(blocks):
        for k in range(b.n):
            owner[b.off + k] = (bi, k)
    # verify every block in atom order
    frag_cache = {}
    for bi, b in enumerate(blocks):
        t = parsed.tokens[b.tok]
        if b.tok not in frag_cache:
            fm = refchem.fragment_mol(t, sanitize=False)
            frag_cache[b.tok] = ([(a.GetAtomicNum(), a.GetFormalCharge(), a.GetIsotope()) for a in fm.GetAtoms()],
                                 {(min(i, j), max(i, j)): o for i, j, o in t.bonds})
        sigs, bonds = frag_cache[b.tok]
        got = [(mol.GetAtomWithIdx(b.off + k).GetAtomicNum(), mol.GetAtomWithIdx(b.off + k).GetFormalCharge(),
                mol.GetAtomWithIdx(b.off + k).GetIsotope()) for k in range(b.n)]
        if got != sigs:
            probs.append(("residue_atoms", f"residue {bi} (token {t.text_ext}): atoms {got} differ from token atoms {sigs}"))
    links = []
    internal = {bi: {} for bi in range(len(blocks))}
    for bond in mol.GetBonds():
        i, j = bond.GetBeginAtomIdx(), bond.GetEndAtomIdx()
        (bi, ki), (bj, kj) = owner[i], owner[j]
        o = refchem.bond_order(bond)
        if bi == bj:
            internal[bi][(min(ki, kj), max(ki, kj))] = o
        else:
            links.append((bi, ki, bj, kj, o))
    for bi, b in enumerate(blocks):
        _, bonds = frag_cache[b.tok]
        got = internal[bi]
        if set(got) != set(bonds):
            probs.append(("residue_bonds", f"residue {bi} (token {parsed.tokens[b.tok].text_ext}): internal bonds {sorted(got)} vs token {sorted(bonds)}"))
        else:
            for k, o in bonds.items():
                go = got[k]
                # aromatic perception may differ for kekulé-written rings: compare 1.5 loosely with written 1/2
                if go != o and not (1.5 in (go, o)):
                    probs.append(("residue_bonds", f"residue {bi}: bond {k} order {go} vs written {o}"))
    return Decomp(blocks, links, probs, mol)
