"""Compare what the repository parsed with the reference AST (used by C02; facets reused by C01)."""
import re

from rdkit import Chem

from . import refchem
from .ast import BD, Dist, Mol, Stoch, Sys, Tok

HAZARDS = ("bd_after_branch", "bd_adjacent", "multi_bond_bd", "sym_bd")
_BTE = {Chem.BondType.SINGLE: 1.0, Chem.BondType.DOUBLE: 2.0, Chem.BondType.TRIPLE: 3.0, Chem.BondType.AROMATIC: 1.5,
        Chem.BondType.ONEANDAHALF: 1.5}


def order_of(bt):
    try:
        return _BTE.get(bt, f"other:{int(bt)}")
    except Exception:  # noqa: BLE001
        return f"other:{bt!r}"


def close(a, b, rel=1e-9):
    return abs(a - b) <= rel * max(1.0, abs(a), abs(b))


def bd_facts(bd):
    """observable facts of a repository BondDescriptor"""
    tr = getattr(bd, "transitions", None)
    did = getattr(bd, "descriptor_id", "")
    return {
        "symbol": getattr(bd, "descriptor", None),
        "id": None if did in ("", None) else int(did),
        "weight": float(bd.weight),
        "transitions": None if tr is None else [float(x) for x in tr],
        "atom": getattr(bd, "atom_bonding_to", None),
        "order": order_of(getattr(bd, "bond_type", None)),
    }


def cmp_bd(ref: BD, bd, atom=None, check_order=True):
    """list of (field, message)"""
    out = []
    f = bd_facts(bd)
    if f["symbol"] != ref.symbol:
        out.append(("symbol", f"symbol {f['symbol']!r} != {ref.symbol!r}"))
    if ref.symbol == "":
        return out
    if f["id"] != ref.id:
        out.append(("id", f"id {f['id']!r} != {ref.id!r}"))
    if not close(f["weight"], ref.w):
        out.append(("weight", f"weight {f['weight']!r} != {ref.w!r}"))
    rt = ref.transitions
    if (f["transitions"] is None) != (rt is None) or (rt is not None and (len(rt) != len(f["transitions"]) or any(
            not close(a, b) for a, b in zip(rt, f["transitions"])))):
        out.append(("transitions", f"transitions {f['transitions']!r} != {rt!r}"))
    if atom is not None and f["atom"] != atom:
        out.append(("atom", f"bonds to atom {f['atom']!r}, notation says atom {atom}"))
    if check_order and f["order"] != float(ref.order):
        out.append(("order", f"bond order {f['order']!r} != {float(ref.order)}"))
    return out


def cmp_token(ref: Tok, tok, num_offset=None):
    """compare a repository SmilesToken with the reference token; list of (field, message, hazards of this token)"""
    hz = sorted(set(ref.flags) & set(HAZARDS))
    return [(f, m, hz) for f, m in _cmp_token(ref, tok, num_offset)]


def _cmp_token(ref: Tok, tok, num_offset=None):
    out = []
    bds = list(tok.bond_descriptors)
    if len(bds) != len(ref.atts):
        out.append(("n_descriptors", f"{len(bds)} descriptors parsed, {len(ref.atts)} written in {ref.text_ext}"))
        return out
    for k, ((atom, rb), bd) in enumerate(zip(ref.atts, bds)):
        for fld, msg in cmp_bd(rb, bd, atom):
            out.append((fld, f"descriptor {k} of {ref.text_ext}: {msg}"))
        if num_offset is not None and getattr(bd, "descriptor_num", None) != num_offset + k:
            out.append(("descriptor_num", f"descriptor {k} of {ref.text_ext} numbered {getattr(bd, 'descriptor_num', None)}, expected {num_offset + k}"))
    # atoms and internal bonds through the public fragment
    try:
        frag = tok.generate_smiles_fragment()
    except Exception as exc:  # noqa: BLE001
        out.append(("fragment", f"generate_smiles_fragment raised {exc!r} for {ref.text_ext}"))
        return out
    m = Chem.MolFromSmiles(frag)
    if m is None:
        out.append(("fragment", f"fragment {frag!r} of {ref.text_ext} is not valid SMILES"))
        return out
    try:
        rsig, rbonds = refchem.tok_graph(ref)
    except Exception as exc:  # noqa: BLE001  (reference token itself not sanitisable: generator problem, not the repo's)
        return out + [("_ref", f"reference fragment not sanitisable: {exc!r}")]
    sig, bonds = refchem.mol_graph(m)
    if sig != rsig:
        out.append(("atoms", f"atoms of fragment {frag!r} {sig} differ from written atoms {rsig} in {ref.text_ext}"))
    elif bonds != rbonds:
        out.append(("bonds", f"internal bonds of fragment {frag!r} {sorted(bonds)} differ from written {sorted(rbonds)} in {ref.text_ext}"))
    return out


_DIST_RE = re.compile(r"^\|?\s*([a-z_]+)\s*\(([^)]*)\)\s*\|?$")


def dist_facts(d):
    if d is None:
        return None
    m = _DIST_RE.match(d.generate_string(True).strip())
    if not m:
        return ("?", d.generate_string(True))
    return (m.group(1), tuple(float(x) for x in m.group(2).split(",")))


def cmp_dist(ref: Dist, d):
    f = dist_facts(d)
    if ref is None:
        return [] if f is None else [("distribution", f"distribution {f} parsed, none written")]
    if f is None:
        return [("distribution", f"no distribution parsed, {ref.text()} written")]
    exp = tuple(float(p) for p in ref.params)
    if ref.family == "uniform":
        exp = tuple(float(int(p)) for p in exp)
    if f[0] != ref.family or len(f[1]) != len(exp) or any(not close(a, b) for a, b in zip(f[1], exp)):
        return [("distribution", f"distribution {f} != written {ref.family}{exp}")]
    return []


def cmp_stoch(ref: Stoch, obj):
    out = []
    for fld, msg in cmp_bd(ref.left, obj.left_terminal, None):
        out.append(("left_terminal." + fld, "left terminal: " + msg, []))
    for fld, msg in cmp_bd(ref.right, obj.right_terminal, None):
        out.append(("right_terminal." + fld, "right terminal: " + msg, []))
    rt, et = list(obj.repeat_tokens), list(obj.end_tokens)
    if len(rt) != len(ref.repeat) or len(et) != len(ref.end):
        out.append(("n_tokens", f"{len(rt)} repeat / {len(et)} end tokens parsed, {len(ref.repeat)} / {len(ref.end)} written", []))
        return out
    off = 0
    for r, t in zip(ref.repeat + ref.end, rt + et):
        out += cmp_token(r, t, off)
        off += len(r.atts)
    out += [(f, m, []) for f, m in cmp_dist(ref.dist, getattr(obj, "distribution", None))]
    return out


def mix_facts(mix):
    if mix is None:
        return None
    return (mix.absolute_mass, mix.relative_mass)


def cmp_mol(ref: Mol, obj, check_mix=True):
    import gbigsmiles

    out = []
    els = list(obj.elements)
    if len(els) != len(ref.elements):
        out.append(("n_elements", f"{len(els)} elements parsed, {len(ref.elements)} written: {[type(e).__name__ for e in els]}", []))
        return out
    for k, (r, e) in enumerate(zip(ref.elements, els)):
        if isinstance(r, Stoch):
            if not isinstance(e, gbigsmiles.Stochastic):
                out.append(("element_kind", f"element {k} is {type(e).__name__}, a stochastic object was written", []))
                continue
            out += cmp_stoch(r, e)
        else:
            if not isinstance(e, gbigsmiles.SmilesToken):
                out.append(("element_kind", f"element {k} is {type(e).__name__}, a token was written", []))
                continue
            out += cmp_token(r, e, 0)
    if check_mix:
        f = mix_facts(getattr(obj, "mixture", None))
        if ref.mix is None:
            if f is not None:
                out.append(("mixture", f"mixture {f} parsed, none written", []))
        else:
            if f is None:
                out.append(("mixture", f"no mixture parsed, {ref.mix} written", []))
            else:
                kind, x = ref.mix
                got = f[0] if kind == "abs" else f[1]
                if got is None or not close(float(got), float(x)):
                    out.append(("mixture", f"mixture {f} does not keep the written {ref.mix}", []))
    return out


def hazards_of(x):
    """hazard placement flags of all tokens of an AST node"""
    fl = set()
    toks = [x] if isinstance(x, Tok) else (x.tokens if isinstance(x, (Stoch, Mol)) else [t for m in x.mols for t in m.tokens])
    for t in toks:
        fl |= set(t.flags) & set(HAZARDS)
    return sorted(fl)
