"""Probes around the public API of gbigsmiles: guards, scripted / recording generators, taps.

All wrapping is done from the harness side for the duration of a case; nothing in /repo is edited.
"""
import contextlib
import signal
import sys

import numpy as np

from .env import HarnessError


# -------------------------------------------------------------------------------------------- guards
class Timeout(BaseException):
    pass


class StepBudget(BaseException):
    pass


@contextlib.contextmanager
def alarm(seconds):
    """outer wall-clock guard (never an oracle): raises Timeout (BaseException) in the main thread"""
    def handler(signum, frame):
        raise Timeout()
    old = signal.signal(signal.SIGALRM, handler)
    # repeating: if the exception is raised inside a callback where Python swallows it ("Exception ignored in" a gc callback, a
    # __del__), the next tick raises it again - a one-shot timer would leave the guarded call unbounded
    signal.setitimer(signal.ITIMER_REAL, seconds, 0.5)
    try:
        yield
    finally:
        signal.setitimer(signal.ITIMER_REAL, 0)
        signal.signal(signal.SIGALRM, old)


class StepCounter:
    """deterministic step budget: counts line events inside gbigsmiles files"""

    def __init__(self, budget, root):
        self.budget = budget
        self.n = 0
        self.root = root

    def __enter__(self):
        self._old = sys.gettrace()
        root = self.root

        def local(frame, event, arg):
            if event == "line":
                self.n += 1
                if self.n > self.budget:
                    raise StepBudget()
            return local

        def glob(frame, event, arg):
            if frame.f_code.co_filename.startswith(root):
                return local
            return None

        sys.settrace(glob)
        return self

    def __exit__(self, *a):
        sys.settrace(self._old)
        return False


def guarded(fn, *args, seconds=20, **kw):
    """returns ('ok', value) | ('raise', exc) | ('timeout', None)"""
    try:
        with alarm(seconds):
            return "ok", fn(*args, **kw)
    except Timeout:
        return "timeout", None
    except Exception as exc:  # noqa: BLE001
        return "raise", exc


# ------------------------------------------------------------------------------------ random generators
_NATIVE_NAMES = ("random", "uniform", "integers", "normal", "standard_normal", "permutation", "permuted", "shuffle", "multinomial",
                 "exponential", "standard_exponential", "gamma", "standard_gamma", "beta", "binomial", "geometric", "poisson", "bytes")


class ChoiceBudget(BaseException):
    """more rng.choice calls than any correct generation of this molecule can need (deterministic liveness bound)"""


class CountingRNG(np.random.Generator):
    """default_rng(seed) whose `choice` calls are counted against a limit (None = unlimited)"""

    def __init__(self, seed):
        super().__init__(np.random.PCG64(seed))
        self.count = 0
        self.limit = None

    def choice(self, *a, **kw):
        self.count += 1
        if self.limit is not None and self.count > self.limit:
            raise ChoiceBudget(self.count)
        return super().choice(*a, **kw)


class RecordingRNG(np.random.Generator):
    """a real seeded Generator whose `choice` calls are logged; calls of other random primitives are noted with the position in
    the choice log at which they happened (`native_log`), so that a check can tell "no choice call here" from "drawn another way".
    """

    def __init__(self, seed):
        super().__init__(np.random.PCG64(seed))
        self.log = []
        self.native_log = []

    def __getattribute__(self, name):
        if name in _NATIVE_NAMES:
            try:
                object.__getattribute__(self, "native_log").append((len(object.__getattribute__(self, "log")), name))
            except AttributeError:
                pass
        return np.random.Generator.__getattribute__(self, name)

    def choice(self, a, size=None, replace=True, p=None, axis=0, shuffle=True):
        r = super().choice(a, size=size, replace=replace, p=p, axis=axis, shuffle=shuffle)
        opts = list(a) if not isinstance(a, (int, np.integer)) else list(range(int(a)))
        self.log.append((opts, None if p is None else [float(x) for x in p], r))
        return r


class QuantileRNG(np.random.Generator):
    """Scripted uniform stream: every primitive draw scipy's samplers use is answered with the quantile `q` of that
    primitive (uniform -> low + (high-low) q, standard normal -> Phi^-1(q), poisson(lam) -> its q-quantile), so that a
    draw of a law whose sampler is monotone in the primitive returns the q-quantile of the law.
    `used` lists the primitives that were called; an unscripted primitive falls through to the real stream and is
    recorded under `unscripted` (the caller then treats the draw as not observable)."""

    def __init__(self, q):
        super().__init__(np.random.PCG64(0))
        self.q = float(q)
        self.used = []
        self.unscripted = []

    def _fill(self, v, size):
        return v if size is None else np.full(size, v, dtype=float)

    def uniform(self, low=0.0, high=1.0, size=None):
        self.used.append("uniform")
        return self._fill(low + (high - low) * self.q, size)

    def random(self, size=None, dtype=np.float64, out=None):
        self.used.append("random")
        return self._fill(self.q, size)

    def standard_normal(self, size=None, dtype=np.float64, out=None):
        from scipy import stats as _st
        self.used.append("standard_normal")
        return self._fill(float(_st.norm.ppf(self.q)), size)

    def normal(self, loc=0.0, scale=1.0, size=None):
        from scipy import stats as _st
        self.used.append("normal")
        return self._fill(loc + scale * float(_st.norm.ppf(self.q)), size)

    def poisson(self, lam=1.0, size=None):
        from scipy import stats as _st
        self.used.append("poisson")
        return self._fill(float(_st.poisson.ppf(self.q, lam)), size)

    def __getattribute__(self, name):
        if name in ("gamma", "standard_gamma", "lognormal", "exponential", "standard_exponential", "geometric", "integers",
                    "binomial", "negative_binomial", "beta", "chisquare", "choice", "permutation", "shuffle", "bytes"):
            object.__getattribute__(self, "unscripted").append(name)
        return super().__getattribute__(name)


class ScriptExhausted(BaseException):
    pass


class ScriptedRNG(np.random.Generator):
    """`choice` returns scripted indices; the first unscripted call raises NeedChoice with the options."""

    def __init__(self, script):
        super().__init__(np.random.PCG64(0))
        self.native_used = []
        self.script = list(script)
        self.pos = 0
        self.log = []
        self.prob = 1.0
        self.bad_p = []
        self.count = 0
        self.limit = None

    def choice(self, a, size=None, replace=True, p=None, axis=0, shuffle=True):
        self.count += 1
        if self.limit is not None and self.count > self.limit:
            raise ChoiceBudget(self.count)
        opts = list(a) if not isinstance(a, (int, np.integer)) else list(range(int(a)))
        n = len(opts)
        if p is None:
            pv = [1.0 / n] * n if n else []
        else:
            pv = [float(x) for x in p]
        if n == 0 or len(pv) != n:
            raise ValueError("a must be non-empty / a and p must have same size")
        if any(x < 0 or x != x for x in pv) or abs(sum(pv) - 1.0) > 1e-8:
            self.bad_p.append(pv)
            raise ValueError("probabilities do not sum to 1")
        if self.pos >= len(self.script):
            raise NeedChoice(pv)
        k = self.script[self.pos]
        self.pos += 1
        self.log.append((opts, pv, k))
        self.prob *= pv[k]
        return opts[k]


class NeedChoice(BaseException):
    def __init__(self, p):
        self.p = p


_NATIVE = ("random", "uniform", "integers", "normal", "standard_normal", "permutation", "permuted", "shuffle", "multinomial",
           "exponential", "standard_exponential", "gamma", "standard_gamma", "beta", "binomial", "geometric", "poisson", "bytes")


def _note_native(self, name):
    try:
        object.__getattribute__(self, "native_used").append(name)
    except AttributeError:
        pass


def _scripted_getattribute(self, name):
    # any random primitive other than `choice`: the scripted stream cannot steer it, the run is then "not observable"
    if name in _NATIVE:
        _note_native(self, name)
    return np.random.Generator.__getattribute__(self, name)


ScriptedRNG.native_used = ()
ScriptedRNG.__getattribute__ = _scripted_getattribute


def enumerate_scripts(run, max_paths=20000):
    """Depth-first enumeration of every choice sequence of `run(rng)`.

    run(rng) must be deterministic given the script.  Yields (script, probability, result_or_exception).
    Options with probability zero are skipped.
    """
    stack = [[]]
    n = 0
    while stack:
        script = stack.pop()
        rng = ScriptedRNG(script)
        try:
            res = run(rng)
        except NeedChoice as need:
            for k in reversed(range(len(need.p))):
                if need.p[k] > 0:
                    stack.append(script + [k])
            continue
        except Exception as exc:  # noqa: BLE001
            res = exc
        n += 1
        if n > max_paths:
            raise OverflowError("too many paths")
        yield script, rng.prob, res, rng


# ----------------------------------------------------------------------------------------------- taps
@contextlib.contextmanager
def force_targets(objs_targets):
    """objs_targets: list of (distribution object, iterator/list of targets). draw_mw returns the forced values
    in order (cycling the last one) and records how often it was called."""
    saved = []
    calls = []
    for dist, vals in objs_targets:
        vals = list(vals)
        state = {"i": 0}

        def mk(vals=vals, state=state, dist=dist):
            def draw_mw(rng=None):
                v = vals[min(state["i"], len(vals) - 1)]
                state["i"] += 1
                calls.append((id(dist), v))
                return v
            return draw_mw
        saved.append((dist, dist.__dict__.get("draw_mw", None)))
        dist.draw_mw = mk()
    try:
        yield calls
    finally:
        for dist, old in saved:
            if old is None:
                try:
                    del dist.draw_mw
                except AttributeError:
                    pass
            else:
                dist.draw_mw = old


@contextlib.contextmanager
def tap_targets(dists):
    """record the value every draw_mw returns, without changing it"""
    saved = []
    calls = []
    for dist in dists:
        orig = dist.draw_mw

        def mk(orig=orig, dist=dist):
            def draw_mw(rng=None):
                v = orig(rng)
                calls.append((id(dist), float(v)))
                return v
            return draw_mw
        saved.append(dist)
        dist.draw_mw = mk()
    try:
        yield calls
    finally:
        for dist in saved:
            try:
                del dist.draw_mw
            except AttributeError:
                pass


@contextlib.contextmanager
def tag_residues(token_index):
    """Tag every MolGen created from a token with the index of that token (by identity) in `token_index`
    (dict id(token) -> int).  The tag is a node attribute of the public MolGen.graph and therefore survives
    disjoint_union / deepcopy.  Also records attach events."""
    import gbigsmiles.mol_gen as mg

    MolGen = mg.MolGen
    orig_init = MolGen.__init__
    orig_attach = MolGen.attach_other
    events = []

    def init(self, token, *a, **kw):
        orig_init(self, token, *a, **kw)
        try:
            self.graph.nodes[0]["gbsv_tok"] = token_index.get(id(token), -1)
        except Exception:  # noqa: BLE001
            pass

    def attach(self, self_bond_idx, other, other_bond_idx):
        try:
            a = self.bond_descriptors[self_bond_idx]
            b = other.bond_descriptors[other_bond_idx]
            ev = {"self_n": len(self.bond_descriptors), "a": (str(a), getattr(a, "node_idx", None), a.atom_bonding_to, float(a.weight)),
                  "b": (str(b), b.atom_bonding_to, float(b.weight)), "other_tok": other.graph.nodes[0].get("gbsv_tok", -1) if len(other.graph) == 1 else None,
                  "nres_before": len(self.graph)}
        except Exception:  # noqa: BLE001
            ev = {"error": True}
        events.append(ev)
        return orig_attach(self, self_bond_idx, other, other_bond_idx)

    MolGen.__init__ = init
    MolGen.attach_other = attach
    try:
        yield events
    finally:
        MolGen.__init__ = orig_init
        MolGen.attach_other = orig_attach


def system_generator(system, rng):
    """System.generator is a property with an rng default: drive it with an explicit generator."""
    prop = type(system).__dict__.get("generator")
    if isinstance(prop, property):
        return prop.fget(system, rng)
    if callable(prop):
        return prop(system, rng)
    raise HarnessError("System.generator is neither a property nor a method")
