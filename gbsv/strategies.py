"""Hypothesis strategies: tokens (as written trees), descriptors, stochastic objects, molecules, systems.

Every strategy builds a *valid* instance by construction; the closability analysis of reflaw is the safety
net for generation-based checks (its reject rate is measured by the callers).

`avoid` is a set of token-placement flags that the generator must not produce (used to exclude, by
construction, the placements behind a recorded known finding so that the search continues behind it).
"""
from hypothesis import strategies as st

from .ast import ATOMS, AROMATIC, BD, CONJ, RINGS, Dist, Mol, Node, Stoch, Sys, Tok, print_token

ALIPH = ["C", "C", "C", "C", "N", "O", "S", "P", "B", "[Si]", "[N+]", "[13CH2]", "[SiH]", "[NH+]", "[Ge]"]
LEAVES = ["F", "Cl", "Br", "I", "[O-]", "O", "N", "C", "C", "[2H]"]
FF_ALIPH = ["C", "C", "C", "C", "O", "N"]
FF_LEAVES = ["F", "Cl", "C", "C", "O"]
WSTYLES = ["plain", "plain", "float", "exp", "lead0", "nolead", "dotexp", "dotExp", "Eupper", "expsigned"]


def _val(label):
    return ATOMS[label]


@st.composite
def weights(draw, allow_zero=True):
    k = draw(st.integers(0, 9))
    if k == 0 and allow_zero:
        return 0.0
    if k <= 4:
        return float(draw(st.integers(1, 9)))
    if k <= 6:
        return draw(st.sampled_from([0.5, 0.25, 0.1, 2.5, 0.01, 10.1, 1.0, 0.00005, 1e-7, 250000.0, 1e-9, 3e-9, 2e-12]))
    return round(draw(st.floats(0.05, 20.0)), 3)


@st.composite
def token(draw, bds, max_atoms=6, chem="any", avoid=frozenset(), allow_lead=True, single_h=False, min_heavy=1,
          end_bd_last=False, lead_bd_first=False, rings=True):
    """A token carrying the descriptors `bds` (list of BD; may be empty).

    end_bd_last  : the last descriptor of `bds` is written at the very end of the main chain (auto-insert form)
    lead_bd_first: the first descriptor of `bds` is written before the first atom
    """
    bds = list(bds)
    need = sum(b.order for b in bds)
    if single_h and len(bds) == 1 and bds[0].order == 1:
        root = Node("[H]", free=1)
        nodes = [root]
    else:
        aliph = FF_ALIPH if chem == "ff" else ALIPH
        leaves = FF_LEAVES if chem == "ff" else LEAVES
        n_atoms = draw(st.integers(max(1, min_heavy), max_atoms))
        nodes = []
        use_ring = rings and n_atoms >= 5 and draw(st.integers(0, 3)) == 0 and "ring" not in avoid
        ring_no = [draw(st.integers(1, 9)) if draw(st.integers(0, 5)) else draw(st.integers(10, 99))]

        def new_node(label, parent, order, **kw):
            val = _val(label)
            hv_ok = chem != "ff" and all(b.order == 1 for b in bds)  # RDKit rewrites X=P(=O) / X=S(=O) with X != O
            if hv_ok and label == "S" and draw(st.integers(0, 2)) == 0:
                val = draw(st.sampled_from([4, 6]))  # sulfoxide / sulfone type sulfur
            if hv_ok and label == "P" and draw(st.integers(0, 2)) == 0:
                val = 5
            nd = Node(label, free=val, **kw)
            n_oxo = {("S", 4): 1, ("S", 6): 2, ("P", 5): 1}.get((label, val), 0)
            if parent is not None:
                parent.children.append([order, nd, False])
                parent.free -= order
                nd.free -= order
            nodes.append(nd)
            # hypervalent centres only in the forms RDKit's UFF knows: sulfoxide, sulfone, phosphine oxide type
            for _ in range(n_oxo):
                ox = Node("O", free=0)
                nd.children.append([2, ox, True])
                nd.free -= 2
                nodes.append(ox)
            return nd

        def total_free():
            return sum(x.free for x in nodes)

        # root
        if n_atoms == 1 and need <= 1 and draw(st.booleans()):
            root = new_node(draw(st.sampled_from(leaves)), None, 1)
        else:
            cands = [a for a in aliph if _val(a) >= min(4, max(2, need))] or ["C"]
            root = new_node(draw(st.sampled_from(cands)), None, 1)
        ring_done = False
        while len(nodes) < n_atoms:
            parents = [x for x in nodes if x.free >= 1]
            if not parents:
                break
            par = draw(st.sampled_from(parents))
            remaining = n_atoms - len(nodes)
            if use_ring and not ring_done and remaining >= 5 and par.label not in AROMATIC:
                motif = RINGS[draw(st.sampled_from(sorted(RINGS)))]
                if len(motif) <= remaining:
                    ring_done = True
                    rn = ring_no[0]
                    prev = new_node(motif[0], par, 1)
                    prev.rings.append((rn, 1))
                    for lab in motif[1:]:
                        prev = new_node(lab, prev, 1, aromatic_link=True)
                        # ring bonds use one valence on each side, already booked by new_node
                    prev.rings.append((rn, 1))
                    prev.free -= 1
                    # first ring atom also spends one valence on the closure
                    nodes[-len(motif)].free -= 1
                    continue
            # plain atom
            order = 1
            if par.free >= 2 and par.label in ("C", "N") and draw(st.integers(0, 5)) == 0:
                order = 2

            if par.free >= 3 and par.label == "C" and draw(st.integers(0, 9)) == 0:
                order = 3
            if order == 1:
                pool = aliph + leaves if remaining > 1 else leaves + aliph
            elif order == 2:
                pool = ["C", "O", "N", "C"] if par.label == "C" else (["O"] if par.label in ("S", "P") else ["C", "N"])
                pool = [x for x in pool if _val(x) >= 2]
            else:
                pool = ["C", "N"]
            lab = draw(st.sampled_from(pool))
            # keep enough valence for the descriptors
            if total_free() - 2 * order + _val(lab) < need:
                lab, order = "C", 1
            nd = new_node(lab, par, order)
            nd.explicit_dash = order == 1 and par.label not in AROMATIC and draw(st.integers(0, 7)) == 0 and "explicit_dash" not in avoid
        # aliphatic ring closure
        if rings and "ring" not in avoid and len(nodes) >= 4 and draw(st.integers(0, 5)) == 0:
            al = [x for x in nodes if x.label not in AROMATIC and x.free >= 1 and not x.label.startswith("[")]
            if len(al) >= 2:
                a = draw(st.sampled_from(al))
                others = [x for x in al if x is not a and not _adjacent(a, x) and _only_single_path(nodes, a, x)]
                if others and total_free() - 2 >= need:
                    b = draw(st.sampled_from(others))
                    rn = ring_no[0] + 1 if ring_no[0] < 99 else 1
                    first, second = (a, b) if nodes.index(a) < nodes.index(b) else (b, a)
                    ro = 1
                    # a double ring-closure bond only in carbocycles: small unsaturated hetero rings (e.g. the oxaphosphete
                    # O1C(F)=C1P...) are perceived as aromatic by RDKit and then fail kekulisation - an artefact of RDKit on
                    # chemistry the library never promised, not a statement about generation (thorough C05, 1 case in 175k)
                    carbocycle = all(x.label in ("C", "F", "Cl", "Br", "I") for x in nodes)
                    if (carbocycle and a.label == "C" and b.label == "C" and a.free >= 2 and b.free >= 2 and total_free() - 4 >= need
                            and "ring_bond_symbol" not in avoid and draw(st.integers(0, 2)) == 0):
                        ro = 2  # double ring-closure bond: its symbol is written next to the ring digit
                    first.rings.append((rn, ro))
                    second.rings.append((rn, ro))
                    a.free -= ro
                    b.free -= ro
        # make sure the descriptors fit
        while True:
            free_now = sorted((x.free for x in nodes), reverse=True)
            if _fits(free_now, sorted((b.order for b in bds), reverse=True)):
                break
            parents = [x for x in nodes if x.free >= 1]
            if not parents:
                # no valence anywhere: start over with a plain carbon chain
                nodes.clear()
                root = new_node("C", None, 1)
                continue
            new_node("C", draw(st.sampled_from(parents)), 1)
        root = nodes[0]

    # ---- attach the descriptors
    def main_chain_end():
        x = root
        while True:
            atoms = [c for c in x.children if isinstance(c[1], Node)]
            if not atoms:
                return x
            x = atoms[-1][1]

    order_of = list(range(len(bds)))
    placed = {}
    if lead_bd_first and bds:
        if root.free < bds[0].order:
            # make room: push the root's last atom child one carbon away is not possible in general; restart simple
            root = Node("C", free=4)
            nodes[:] = [root]
        root.free -= bds[0].order
        root.lead = bds[0]
    for k in sorted(order_of, key=lambda i: -bds[i].order):
        b = bds[k]
        cands = [x for x in nodes if x.free >= b.order]
        if lead_bd_first and k == 0:
            continue  # reserved on the root below
        elif end_bd_last and k == len(bds) - 1:
            x = None  # placed below
            continue
        else:
            x = draw(st.sampled_from(cands))
        x.free -= b.order
        placed[k] = x
    # children order & descriptor placement; descriptors are inserted in index order so that written order
    # (= descriptor numbering) is decided by the printer alone
    lead_used = False
    for k in order_of:
        if k not in placed:
            continue
        x, b = placed[k], bds[k]
        if x is root and not lead_used and root.lead is None and (
                allow_lead and not lead_bd_first and "leading" not in avoid
                and draw(st.integers(0, 2)) == 0 and (b.order == 1 or "multi_bond_bd" not in avoid)):
            root.lead = b
            lead_used = True
            continue
        pos = draw(st.integers(0, len(x.children)))
        x.children.insert(pos, [b.order, b, False])
    # shuffle / parenthesise
    for x in nodes:
        if len(x.children) > 1 and draw(st.booleans()):
            perm = draw(st.permutations(list(range(len(x.children)))))
            x.children = [x.children[i] for i in perm]
        if x.children and draw(st.integers(0, 3)) == 0:
            x.children[-1][2] = True  # last child in parentheses as well
    if end_bd_last and bds:
        b = bds[-1]
        # make the main chain end where a trailing atom would bond: last atom child chain must be inline
        x = root
        while True:
            atoms_idx = [i for i, c in enumerate(x.children) if isinstance(c[1], Node)]
            if not atoms_idx:
                break
            li = atoms_idx[-1]
            ch = x.children.pop(li)
            ch[2] = False
            x.children.append(ch)
            x = ch[1]
        if x.free < b.order:
            # give the chain end room: hang a new carbon (inline, last) below the deepest main-chain atom with a free valence
            chain = [root]
            while True:
                a_idx = [i for i, c in enumerate(chain[-1].children) if isinstance(c[1], Node)]
                if not a_idx:
                    break
                chain.append(chain[-1].children[a_idx[-1]][1])
            y = next((c for c in reversed(chain) if c.free >= 1), None)
            if y is None:
                y = next(c for c in nodes if c.free >= 1)  # cannot fail: descriptors were budgeted
                # y is off the main chain: make the path to y the main chain by moving it last at every level
                _make_last_path(root, y)
            nd = Node("C", free=3)
            y.children.append([1, nd, False])
            y.free -= 1
            nodes.append(nd)
            x = nd
        x.free -= b.order
        x.children.append([b.order, b, False, True])
    # bracket atoms: fill open valences so that no radical is written
    for x in list(nodes):
        if x.label.startswith("[") and x.label != "[H]":
            while x.free > 0:
                leaf = Node("C" if draw(st.booleans()) else "F", free=0)
                pos = 0
                x.children.insert(pos, [1, leaf, True])
                x.free -= 1
                nodes.append(leaf)
    _repair(nodes, root, avoid)
    if "sym_bd" in avoid:
        for b in bds:
            b.explicit_single = False
    tok = print_token(root, ring_style=draw(st.sampled_from(["digit", "digit", "pct"])))
    bad = set(tok.flags) & set(avoid)
    if bad - {"ring", "bracket", "explicit_dash"}:
        raise AssertionError(f"generator produced avoided placement {bad}: {tok.text_ext}")
    return tok


def _make_last_path(root, target):
    """reorder children so that `target` lies on the main chain (last atom child at every level)"""
    def rec(x):
        if x is target:
            return True
        for i, c in enumerate(x.children):
            if isinstance(c[1], Node) and rec(c[1]):
                ch = x.children.pop(i)
                ch[2] = False
                x.children.append(ch)
                return True
        return False
    rec(root)


def _fits(free_desc, need_desc):
    free = list(free_desc)
    for o in need_desc:
        for i, f in enumerate(free):
            if f >= o:
                free[i] -= o
                break
        else:
            return False
        free.sort(reverse=True)
    return True


def _adjacent(a, b):
    return any(c[1] is b for c in a.children) or any(c[1] is a for c in b.children)


def _only_single_path(nodes, a, b):
    """tree path between a and b has only single, non-aromatic bonds and at least one atom in between"""
    parent = {}
    for x in nodes:
        for o, ch, *_ in x.children:
            if isinstance(ch, Node):
                parent[id(ch)] = (x, o, ch.aromatic_link)

    def up(x):
        path = [(x, None)]
        while id(x) in parent:
            p, o, aro = parent[id(x)]
            path.append((p, (o, aro)))
            x = p
        return path

    pa, pb = up(a), up(b)
    ids_a = {id(x): i for i, (x, _) in enumerate(pa)}
    for j, (x, _) in enumerate(pb):
        if id(x) in ids_a:
            i = ids_a[id(x)]
            edges = [pa[k][1] for k in range(1, i + 1)] + [pb[k][1] for k in range(1, j + 1)]
            if len(edges) < 2:
                return False
            if not all(e is not None and e[0] == 1 and not e[1] for e in edges):
                return False
            # at least one saturated carbon in the ring, so that RDKit can never perceive the ring as aromatic
            ring_atoms = [pa[k][0] for k in range(0, i + 1)] + [pb[k][0] for k in range(0, j)]

            def saturated_c(x):
                if x.label != "C":
                    return False
                if id(x) in parent and parent[id(x)][1] != 1:
                    return False
                return all(c[0] == 1 for c in x.children)
            return any(saturated_c(x) for x in ring_atoms)
    return False


def _repair(nodes, root, avoid):
    """Re-arrange children so that no avoided placement is written.

    bd_adjacent     : two descriptors with no atom written between them
    bd_after_branch : a descriptor in parentheses directly after an atom branch  (text ')(' in front of it)
    Safe layout per atom: [one descriptor first, in parentheses] atom branches ... [one descriptor last, inline].
    Further descriptors are moved onto a one-carbon spacer branch.
    """
    if not ({"bd_adjacent", "bd_after_branch"} & set(avoid)):
        return
    for x in list(nodes):
        ch = x.children
        bds_here = [c for c in ch if isinstance(c[1], BD)]
        if not bds_here:
            continue
        atoms_here = [c for c in ch if not isinstance(c[1], BD)]
        pinned = ch[-1] if (isinstance(ch[-1][1], BD) and len(ch[-1]) > 3 and ch[-1][3]) else None
        others = [c for c in bds_here if c is not pinned]
        first = second = None
        if pinned is not None:
            second = pinned
            if atoms_here and others:
                first = others.pop(0)
        else:
            first = others.pop(0)
            if others and (atoms_here or len(others) > 1):
                second = others.pop(0)
        spacers = []
        for e in others:
            if x is root and root.lead is None and "leading" not in avoid and not (len(e) > 3 and e[3]):
                root.lead = e[1]
                continue
            sp = Node("C", free=2)
            sp.children.append([e[0], e[1], False])
            spacers.append([1, sp, True])
            nodes.append(sp)
        mids = atoms_here + spacers
        newch = []
        if first is not None:
            first[2] = bool(mids) or second is not None
            if second is not None and not mids:
                # two descriptors and nothing to separate them: put a spacer under the second
                sp = Node("C", free=2)
                sp.children.append([second[0], second[1], False])
                nodes.append(sp)
                mids = [[1, sp, False]]
                second = None
                first[2] = True
            newch.append(first)
        for m in mids:
            newch.append(m)
        if second is not None:
            for m in mids:
                m[2] = True
            second[2] = False
            newch.append(second)
        x.children = newch


# ------------------------------------------------------------------------------------------ distributions
@st.composite
def dists(draw, scale=None, families=None, small=True):
    """A distribution whose typical mass is a few units of `scale` (heavy mass of a typical unit)."""
    fam = draw(st.sampled_from(families or ["gauss", "uniform", "schulz_zimm", "log_normal", "poisson", "flory_schulz"]))
    s = scale or 30.0
    nu = draw(st.integers(1, 4 if small else 12))
    m = float(round(s * nu))
    style = draw(st.sampled_from(["plain", "plain", "float", "tight", "dotexp", "dotExp", "Eupper", "expsigned"]))
    if fam == "gauss":
        return Dist(fam, (m, float(draw(st.sampled_from([0, 1, 5, max(1, round(m / 8))])))), style)
    if fam == "uniform":
        lo = int(draw(st.integers(0, int(m))))
        return Dist(fam, (float(lo), float(lo + draw(st.integers(1, int(m) + 5)))), style)
    if fam == "schulz_zimm":
        mn = max(20.0, m)
        ratio = draw(st.sampled_from([1.05, 1.1, 1.2, 1.25, 1.5, 2.0]))
        return Dist(fam, (min(float(round(mn * ratio)), 2.0 * mn), mn), style)  # never Mw/Mn > 2 (z < 1: outside the documented region)
    if fam == "log_normal":
        return Dist(fam, (max(10.0, m), draw(st.sampled_from([1.05, 1.1, 1.3, 1.8]))), style)
    if fam == "poisson":
        return Dist(fam, (max(1.0, m),), style)
    return Dist(fam, (draw(st.sampled_from([0.5, 0.2, 0.1, 0.05, 0.02, 0.011])),), style)


# ------------------------------------------------------------------------------------- stochastic objects
def _bd(draw, sym, did, order=1, weighted=True, zero_ok=False):
    w = None
    if weighted and draw(st.integers(0, 2)) == 0:
        w = draw(weights(allow_zero=zero_ok))
    return BD(sym, did, w, order, draw(st.sampled_from(WSTYLES)) if w is not None else "plain",
              explicit_single=draw(st.integers(0, 11)) == 0 and order == 1)


@st.composite
def stoch_obj(draw, left_sym, right_sym, avoid=frozenset(), chem="any", arche=None, max_atoms=5, lists=None,
              unit_scale=None, dist=True, families=None, hazards=False, small=True, to_end=None):
    """One stochastic object.

    left_sym / right_sym: '' for [] or the symbol the *outside* carries.
    Returns (Stoch, archetype label).
    """
    did = draw(st.sampled_from([None, None, None, 1, 2, 12]))
    sym_family = "$" if "$" in (left_sym, right_sym) else ("<>" if (left_sym or right_sym) else draw(st.sampled_from(["<>", "<>", "$"])))
    arche = arche or draw(st.sampled_from(["homo", "copoly", "copoly", "aabb", "branch", "graft", "homo", "twoid", "endonly"] +
                                          (["mixed_order"] if (left_sym and left_sym != "$" and "multi_bond_bd" not in avoid) else [])))
    if sym_family == "$" and arche == "aabb":
        arche = "copoly"
    order = 1
    if not left_sym and not right_sym and draw(st.integers(0, 3)) == 0 and "multi_bond_bd" not in avoid:
        order = draw(st.sampled_from([2, 2, 3]))  # double / triple bonded backbone (only with empty terminals)
    units = []  # list of lists of BD
    if sym_family == "$":
        head = tail = "$"
    else:
        # the chain grows from the prefix' symbol: prefix carries left_sym and bonds conj(left_sym) of a unit
        head = CONJ[left_sym] if left_sym else (right_sym if right_sym else draw(st.sampled_from(["<", ">"])))
        tail = CONJ[head]
    # head = symbol on the unit that bonds towards the start of the chain; tail = grows on
    def mk(sym, zero_ok=False):
        return _bd(draw, sym, did, order, zero_ok=zero_ok)
    if arche == "homo":
        units.append([mk(head), mk(tail)])
    elif arche == "copoly":
        for _ in range(draw(st.integers(2, 3))):
            units.append([mk(head), mk(tail)])
    elif arche == "aabb":
        units.append([mk(head), mk(head)])
        units.append([mk(tail), mk(tail)])
    elif arche == "branch":
        units.append([mk(head), mk(tail)])
        units.append([mk(head), mk(tail), mk(tail)])
    elif arche == "mixed_order":
        # a double-bonded entry unit next to single-bonded units: [<]=NC[>] , [<]CC[>]   (prefix must carry =[>])
        units.append([BD(head, did, None, 2), mk(tail)])
        units.append([mk(head), mk(tail)])
    elif arche == "twoid":
        # alternating units that are told apart by descriptor ids only
        id2 = (did or 0) + 5
        units.append([mk(head), BD(tail, id2, None, 1)])
        units.append([BD(head, id2, None, 1), mk(tail)])
    elif arche == "endonly":
        # a grafting site with an id of its own that no repeat unit answers: only end groups can bond it, so it must carry a
        # transition list onto those end groups (set below, once the end groups exist)
        sid = (did or 0) + 3
        endonly_bd = BD(draw(st.sampled_from(["<", ">"])), sid, None, 1)  # directed: not even another copy of the unit answers it
        units.append([mk(head), mk(tail), endonly_bd])
        if draw(st.booleans()):
            units.append([mk(head), mk(tail)])
    elif arche == "graft":
        sid = (did or 0) + 1
        units.append([mk(head), mk(tail), BD("$", sid, draw(st.sampled_from([None, 0.5, 2.0])), 1)])
        units.append([BD("$", sid, None, 1), BD("$", sid, None, 1)])
    else:
        raise ValueError(arche)
    kind_weights = draw(st.integers(0, 7))
    if kind_weights == 0:
        # head-to-tail notation: every growing (tail) descriptor has weight 0; equal weights, also all zero, mean uniform
        for u in units:
            for b in u:
                if b.symbol == tail and b.order == order and not isinstance(b.weight, tuple):
                    b.weight = 0.0
    elif kind_weights == 1:
        # tiny but different weights: still proportional
        for u in units:
            for b in u:
                if not isinstance(b.weight, tuple):
                    b.weight = draw(st.sampled_from([1e-9, 3e-9, 2e-9, 0.0]))
    rep = []
    for u in units:
        perm = draw(st.permutations(u))
        rep.append(draw(token(list(perm), max_atoms=max_atoms, chem=chem, avoid=avoid, min_heavy=1)))
    # which kinds can be open -> end groups for all of them
    open_kinds = {}
    for u in units:
        for b in u:
            open_kinds[b.kind] = b
    ends = []
    for kind, b in sorted(open_kinds.items(), key=repr):
        nalt = draw(st.integers(1, 2))
        for _ in range(nalt):
            e = BD(CONJ[b.symbol], b.id, draw(weights(allow_zero=False)) if draw(st.integers(0, 2)) == 0 else None, b.order,
                   draw(st.sampled_from(WSTYLES)))
            ends.append(draw(token([e], max_atoms=3, chem=chem, avoid=avoid, single_h=draw(st.integers(0, 2)) == 0)))
    if sym_family == "<>" :
        # the start descriptor type needs a cap as well when the object starts from an end group: present already
        pass
    if sym_family == "<>" and not left_sym and right_sym:
        # end-group start with a right terminal: only end groups that start the chain in the right direction may be picked
        for t in ends:
            for _, b in t.atts:
                if b.symbol == head:
                    b.weight = 0.0
    ends = list(draw(st.permutations(ends)))
    left = BD(left_sym, did if left_sym else None, None, 1)
    right = BD(right_sym, did if right_sym else None, None, 1)
    d = None
    if dist:
        masses = [_mass(t) for t in rep]
        sc = unit_scale or (sum(masses) / len(masses))
        d = draw(dists(scale=sc, families=families, small=small))
    ws = (draw(st.sampled_from(["", " "])), draw(st.sampled_from(["", " "])), draw(st.sampled_from(["", " "])), draw(st.sampled_from(["", " "])))
    sto = Stoch(left, right, rep, ends, d, ws)
    if arche == "endonly":
        allb = sto.bds
        nrep = len(sto.repeat_bds)
        lst = [float(draw(st.integers(1, 5))) if (i >= nrep and endonly_bd.compatible(b)) else 0.0 for i, b in enumerate(allb)]
        endonly_bd.weight = tuple(lst)
    use_lists = lists if lists is not None else draw(st.integers(0, 3)) == 0
    if arche == "endonly":
        use_lists = False
    if use_lists:
        te = (right_sym == "" and draw(st.integers(0, 2)) == 0) if to_end is None else (to_end and right_sym == "")
        _add_lists(draw, sto, left_sym if arche != "mixed_order" else "", to_end=te)
    elif left_sym and draw(st.integers(0, 3)) == 0:
        sto.left = BD(left_sym, did, draw(weights(allow_zero=False)), 1, draw(st.sampled_from(WSTYLES)))
    _reprint(sto)
    return sto, arche + ("+lists" if use_lists else "")


def _mass(tok):
    from . import refchem
    return refchem.heavy_mass(tok)


def _add_lists(draw, sto, left_sym, to_end=False):
    """give some descriptors transition lists (only onto compatible descriptors; end groups mostly zero)."""
    allb = sto.bds
    nrep = len(sto.repeat_bds)

    def mklist(d, end_ok=True):
        lst = []
        for i, b in enumerate(allb):
            if d.compatible(b) and (i < nrep or (to_end and end_ok and draw(st.integers(0, 2)) == 0)):
                lst.append(float(draw(st.integers(0, 7))))
            else:
                lst.append(0.0)
        if sum(lst) == 0:
            idx = [i for i, b in enumerate(allb[:nrep]) if d.compatible(b)]
            if not idx:
                return None
            lst[idx[0]] = 1.0
        return tuple(lst)

    for t in sto.repeat:
        for k, (a, b) in enumerate(t.atts):
            if draw(st.integers(0, 1)) == 0:
                lst = mklist(b)
                if lst is not None:
                    b.weight = lst
    if left_sym and draw(st.booleans()):
        d = BD(left_sym, sto.left.id, None, 1)
        lst = mklist(d, end_ok=False)  # the entering bond must reach a repeat unit (C06: at least one repeat unit per object)
        if lst is not None:
            sto.left = BD(left_sym, sto.left.id, lst, 1)


def _reprint(sto):
    """token texts depend on descriptor weights: rebuild text_ext after weights were edited"""
    import re
    for t in sto.tokens:
        # descriptors are written in atts order; rebuild by substituting bracket groups that are descriptors
        parts = re.split(r"(\[[$<>][^\]]*\])", t.text_ext)
        k = 0
        for i, p in enumerate(parts):
            if re.fullmatch(r"\[[$<>][^\]]*\]", p):
                parts[i] = t.atts[k][1].text(True)
                k += 1
        assert k == len(t.atts)
        t.text_ext = "".join(parts)


# ----------------------------------------------------------------------------------------------- molecules
@st.composite
def molecules(draw, avoid=frozenset(), chem="any", max_blocks=2, closed=True, implicit_forms=True, max_atoms=5,
              families=None, lists=None, plain_ok=True, arche=None, small=True, marker=None, force_prefix=None, min_blocks=1,
              fam=None, to_end=None):
    """A molecule AST (elements as the parser must see them, `written` as typed)."""
    if plain_ok and draw(st.integers(0, 11)) == 0:
        t = draw(token([], max_atoms=8, chem=chem, avoid=avoid, min_heavy=2))
        return Mol([t], [t.text_ext], None, "plain", "plain")
    nblocks = draw(st.integers(min(min_blocks, max_blocks), max_blocks))
    start_prefix = draw(st.booleans()) if force_prefix is None else force_prefix
    fam = fam or draw(st.sampled_from(["<>", "<>", "$"]))
    elements, written, labels = [], [], []
    # terminal symbols between blocks
    # direction: prefix carries `s`; every boundary: right terminal r, next left terminal l with compatible(r,l)
    cur_left = ""
    if start_prefix:
        cur_left = "$" if fam == "$" else draw(st.sampled_from(["<", ">"]))
    for bi in range(nblocks):
        last = bi == nblocks - 1
        if last:
            end_suffix = draw(st.booleans()) if closed else draw(st.booleans())
            right = ("$" if fam == "$" else (CONJ[cur_left] if cur_left else draw(st.sampled_from(["<", ">"])))) if end_suffix else ""
        else:
            right = "$" if fam == "$" else (CONJ[cur_left] if cur_left else draw(st.sampled_from(["<", ">"])))
        sto, lab = draw(stoch_obj(cur_left, right, avoid=avoid, chem=chem, max_atoms=max_atoms, families=families,
                                  lists=lists, arche=arche, small=small, to_end=to_end))
        labels.append(lab)
        did = sto.left.id if cur_left else (sto.right.id if right else None)
        # element in front
        if bi == 0 and start_prefix:
            implicit = implicit_forms and draw(st.booleans())
            if "mixed_order" in lab and draw(st.booleans()):
                implicit = False
            bd = BD(cur_left, sto.left.id, 0.0 if implicit else draw(st.sampled_from([None, None, 0.0, 2.0])), 1)
            if "mixed_order" in lab and not implicit:
                bd.order = 2
            extra = [marker] if False else []
            tok = draw(token([bd], max_atoms=4, chem=chem, avoid=avoid, end_bd_last=True, allow_lead=False,
                             single_h=draw(st.integers(0, 3)) == 0 and marker is None))
            elements.append(tok)
            if implicit:
                t = tok.text_ext
                assert t.endswith(bd.text(True)), (t, bd.text(True))
                written.append(t[: len(t) - len(bd.text(True))])
                labels.append("implicit_prefix")
            else:
                written.append(tok.text_ext)
                labels.append("explicit_prefix")
        elements.append(sto)
        written.append(sto.text())
        if not last:
            nxt_left = CONJ[right] if fam != "$" else "$"
            # connector token or back-to-back
            if draw(st.booleans()):
                # ids must agree on both sides of a connector written implicitly: the connector gets them from the terminals
                nid = draw(st.sampled_from([None, None, 3]))
                a = BD(right, sto.right.id, None, 1)
                b = BD(nxt_left, nid, 0.0, 1)
                implicit = implicit_forms and draw(st.booleans())
                if not implicit:
                    b = BD(nxt_left, nid, draw(st.sampled_from([0.0, None, 1.5])), 1)
                tok = draw(token([a, b], max_atoms=4, chem=chem, avoid=avoid, lead_bd_first=True, end_bd_last=True,
                                 allow_lead=False))
                elements.append(tok)
                if implicit:
                    t = tok.text_ext
                    assert t.startswith(a.text(True)) and t.endswith(b.text(True))
                    written.append(t[len(a.text(True)): len(t) - len(b.text(True))])
                    labels.append("implicit_connector")
                else:
                    written.append(tok.text_ext)
                    labels.append("explicit_connector")
                cur_left = nxt_left
                pending_id = nid
            else:
                labels.append("back_to_back")
                cur_left = nxt_left
                pending_id = sto.right.id
            # the next object must use pending_id for its left terminal: handled by post-fix below
            elements.append(("pending_id", pending_id))
        else:
            if right:
                a = BD(right, sto.right.id, None, 1)
                implicit = implicit_forms and draw(st.booleans())
                tok = draw(token([a], max_atoms=4, chem=chem, avoid=avoid, lead_bd_first=True, allow_lead=False,
                                 single_h=draw(st.integers(0, 3)) == 0))
                elements.append(tok)
                if implicit:
                    t = tok.text_ext
                    assert t.startswith(a.text(True))
                    written.append(t[len(a.text(True)):])
                    labels.append("implicit_suffix")
                else:
                    written.append(tok.text_ext)
                    labels.append("explicit_suffix")
    # resolve pending ids: rewrite ids of the following object (all its descriptors with that family id) - simpler:
    # regenerate is expensive, so instead force every object of the molecule to share one id
    els = [e for e in elements if not (isinstance(e, tuple) and e[0] == "pending_id")]
    mol = Mol(els, written, None, "plain", "+".join(labels))
    _unify_ids(mol)
    return mol


def _unify_ids(mol):
    """All backbone descriptors of one molecule share one id (the first object's); side ids stay distinct."""
    stos = [e for e in mol.elements if isinstance(e, Stoch)]
    if not stos:
        return
    base = None
    for s in stos:
        base = s.left.id if s.left.symbol else (s.right.id if s.right.symbol else None)
        if s.left.symbol or s.right.symbol:
            break
    # collect per-object backbone id
    for s in stos:
        old = s.left.id if s.left.symbol else (s.right.id if s.right.symbol else None)
        if not (s.left.symbol or s.right.symbol):
            continue
        if old == base:
            continue
        side = {b.id for b in s.bds} - {old}
        if base in side:
            # the new backbone id is in use for side chains of this object: move those out of the way first
            for b in s.bds:
                if b.id == base:
                    b.id = 70 + (base or 0)
        for b in s.bds:
            if b.id == old:
                b.id = base
        if s.left.symbol:
            s.left.id = base
        if s.right.symbol:
            s.right.id = base
        _reprint(s)
    new_written = []
    import re
    for e, w in zip(mol.elements, mol.written):
        if isinstance(e, Stoch):
            new_written.append(e.text())
        else:
            # tokens between objects: set backbone ids
            changed = False
            for a, b in e.atts:
                if b.id != base and (b.symbol in "<>$"):
                    b.id = base
                    changed = True
            if changed:
                full_old = e.text_ext
                parts = re.split(r"(\[[$<>][^\]]*\])", e.text_ext)
                k = 0
                for i, p in enumerate(parts):
                    if re.fullmatch(r"\[[$<>][^\]]*\]", p):
                        parts[i] = e.atts[k][1].text(True)
                        k += 1
                e.text_ext = "".join(parts)
                if w == full_old:
                    w = e.text_ext
                # implicit forms carry no descriptor text, nothing to rewrite
            new_written.append(w)
    mol.written = new_written


@st.composite
def systems(draw, avoid=frozenset(), chem="any", max_mols=3, **kw):
    n = draw(st.integers(1, max_mols))
    mols = [draw(molecules(avoid=avoid, chem=chem, **kw)) for _ in range(n)]
    # mixture specification: consistent by construction
    S = float(draw(st.sampled_from([1000, 5000, 20000, 1e5, 2.5])))
    fr = [draw(st.integers(1, 10)) for _ in range(n)]
    tot = sum(fr)
    pct = [100.0 * f / tot for f in fr]
    kinds = [draw(st.sampled_from(["abs", "pct"])) for _ in range(n)]
    if "abs" not in kinds:
        kinds[draw(st.integers(0, n - 1))] = "abs"
    for m, k, p in zip(mols, kinds, pct):
        m.mix = (k, round(p, 6)) if k == "pct" else ("abs", round(p / 100.0 * S, 6))
        m.mix_style = draw(st.sampled_from(["plain", "float", "nolead", "dotexp", "dotExp", "Eupper", "expsigned"]))
    return Sys(mols)
