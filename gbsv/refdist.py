"""Closed-form reference distributions (chosen from the documentation, not the repository's classes)."""
import math

import numpy as np
from scipy import special, stats


class Ref:
    def __init__(self, family, params):
        self.family = family
        self.params = tuple(float(p) for p in params)
        p = self.params
        self.discrete = family in ("poisson", "flory_schulz", "schulz_zimm")
        if family == "gauss":
            self.d = stats.norm(p[0], p[1]) if p[1] > 0 else None
            self.mean = p[0]
            self.std = p[1]
        elif family == "uniform":
            lo, hi = float(int(p[0])), float(int(p[1]))
            self.d = stats.uniform(lo, hi - lo)
            self.mean = (lo + hi) / 2
            self.std = (hi - lo) / math.sqrt(12)
        elif family == "schulz_zimm":
            mw, mn = p
            z = mn / (mw - mn)
            self.z, self.mn = z, mn
            self.d = stats.gamma(z, scale=mn / z)
            self.mean = mn
            self.std = mn / math.sqrt(z)
        elif family == "log_normal":
            m, disp = p
            s2 = math.log(disp)
            self.d = stats.lognorm(s=math.sqrt(s2), scale=m / math.sqrt(disp))
            self.mean = m
            self.std = m * math.sqrt(disp - 1)
        elif family == "poisson":
            self.d = stats.poisson(p[0])
            self.mean = p[0]
            self.std = math.sqrt(p[0])
        elif family == "flory_schulz":
            a = p[0]
            self.a = a
            self.d = None
            self.mean = 2 / a - 1
            self.std = math.sqrt((2 - 2 * a)) / a
        else:
            raise ValueError(family)

    # cumulative distribution at a real x:  P(X <= x)
    def cdf(self, x):
        x = float(x)
        f = self.family
        if f == "gauss" and self.d is None:
            return 1.0 if x >= self.params[0] else 0.0
        if f == "flory_schulz":
            k = math.floor(x)
            if k < 1:
                return 0.0
            a = self.a
            return 1.0 - (1 - a) ** k * (1 + a * k)
        if f == "schulz_zimm":
            # the documented law is the gamma density; the library samples it on the integers.  Continuous reference.
            return float(self.d.cdf(x)) if x > 0 else 0.0
        if f == "poisson":
            return float(self.d.cdf(math.floor(x)))
        return float(self.d.cdf(x))

    def cdf_int(self, x):
        """Schulz-Zimm as the documented density sampled on the integers and normalised: P(M <= x)"""
        if self.family != "schulz_zimm":
            return self.cdf(x)
        if not hasattr(self, "_grid"):
            hi = int(math.ceil(self.d.isf(1e-15))) + 5
            ks = np.arange(0, hi + 1)
            with np.errstate(all="ignore"):
                pm = self.d.pdf(ks)
            pm = np.where(np.isfinite(pm), pm, 0.0)
            self.total_int = float(pm.sum())  # the documented density summed over the integers (1 + discretisation error)
            self._cum = np.cumsum(pm) / pm.sum()
            self._grid = hi
        k = int(math.floor(x))
        if k < 0:
            return 0.0
        return float(self._cum[min(k, self._grid)])

    def cdf_int_raw(self, x):
        """Schulz-Zimm: the documented density summed over the integers up to x, NOT normalised (what a library that samples the
        documented formula on the integers computes)"""
        if self.family != "schulz_zimm":
            return self.cdf(x)
        return self.cdf_int(x) * self.int_total()

    def int_total(self):
        """sum of the documented Schulz-Zimm density over the integers"""
        self.cdf_int(1.0)
        return self.total_int

    def pmf(self, k):
        f = self.family
        if f == "poisson":
            return float(self.d.pmf(k))
        if f == "flory_schulz":
            return self.a ** 2 * k * (1 - self.a) ** (k - 1) if k >= 1 else 0.0
        if f == "schulz_zimm":
            # M = 0: the documented formula gives 0 for z > 1 and 1/Mn for z == 1 (0^0 = 1)
            return float(self.d.pdf(k)) if (k > 0 or (k == 0 and self.z == 1.0)) else 0.0
        raise ValueError

    def pdf(self, x):
        return float(self.d.pdf(x))

    def support_lo(self):
        return {"gauss": -math.inf, "uniform": float(int(self.params[0])), "schulz_zimm": 0.0, "log_normal": 0.0, "poisson": 0.0,
                "flory_schulz": 1.0}[self.family]

    def support_hi(self):
        return float(int(self.params[1])) if self.family == "uniform" else math.inf

    def text(self):
        p = self.params
        return f"{self.family}(" + ", ".join(repr(x) for x in p) + ")"
