"""Exact binomial decision rule with a stated false-alarm bound (composite null |p - p_ref| <= delta)."""
from scipy import stats as st


def binom_tail(k, n, p_ref, delta=0.0):
    """two-sided composite tail: probability of a count at least as extreme as k under the worst p in
    [p_ref-delta, p_ref+delta]"""
    lo = max(0.0, p_ref - delta)
    hi = min(1.0, p_ref + delta)
    # upper tail uses the largest admissible p, lower tail the smallest
    up = st.binom.sf(k - 1, n, hi) if k > 0 else 1.0
    dn = st.binom.cdf(k, n, lo)
    return min(1.0, 2 * min(up, dn))


def reject_bins(counts, n, probs, alpha, delta=0.0):
    """list of (bin index, count, expected probability, tail) for bins rejected at level alpha (Bonferroni inside)"""
    out = []
    m = len(counts)
    for i, (k, p) in enumerate(zip(counts, probs)):
        t = binom_tail(k, n, p, delta)
        if t < alpha / m:
            out.append((i, k, p, t))
    return out
