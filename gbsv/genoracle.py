"""Oracles on one generated molecule (C04-C07), shared by the generation checks.

evaluate(parsed, gres) -> list of findings  (prop, oracle, message, sig)
"""
import networkx as nx

from . import gen, refchem
from .ast import BD, Mol, Stoch, Tok
from .parsecmp import order_of


def tok_owner(mol: Mol):
    """token index -> (element index, role) with role in prefix|connector|suffix|plain|repeat|end"""
    out = []
    n = len(mol.elements)
    for ei, e in enumerate(mol.elements):
        if isinstance(e, Tok):
            role = "plain" if n == 1 else ("prefix" if ei == 0 else ("suffix" if ei == n - 1 else "connector"))
            out.append((ei, role))
        else:
            out += [(ei, "repeat")] * len(e.repeat) + [(ei, "end")] * len(e.end)
    return out


def assign_links(parsed, dec):
    """Injective assignment of every inter-residue bond to one descriptor at each end such that the two are
    compatible by the reference rule and prescribe the bond's order.  Returns (assignment or None, reason)."""
    toks = parsed.tokens
    links = dec.links
    slots = []  # per block: list of (atom, BD)
    for b in dec.blocks:
        slots.append(list(toks[b.tok].atts))
    used = [set() for _ in dec.blocks]
    res = [None] * len(links)

    # order links by how constrained they are
    def cands(L):
        bi, ki, bj, kj, o = L
        out = []
        for si, (ai, di) in enumerate(slots[bi]):
            if ai != ki or float(di.order) != float(o) or si in used[bi]:
                continue
            for sj, (aj, dj) in enumerate(slots[bj]):
                if aj != kj or float(dj.order) != float(o) or sj in used[bj]:
                    continue
                if di.compatible(dj):
                    out.append((si, sj))
        return out

    order = list(range(len(links)))
    steps = [0]

    def rec(pos):
        steps[0] += 1
        if steps[0] > 200000:
            raise OverflowError
        if pos == len(order):
            return True
        # most constrained first
        best, bc = None, None
        for k in order:
            if res[k] is not None:
                continue
            c = cands(links[k])
            if bc is None or len(c) < len(bc):
                best, bc = k, c
                if not c:
                    break
        if not bc:
            return False
        bi, ki, bj, kj, o = links[best]
        for si, sj in bc:
            res[best] = (si, sj)
            used[bi].add(si)
            used[bj].add(sj)
            if rec(pos + 1):
                return True
            used[bi].discard(si)
            used[bj].discard(sj)
            res[best] = None
        return False

    try:
        ok = rec(0)
    except OverflowError:
        return None, "search_limit"
    if ok:
        return res, ""
    # explain the first link without any candidate ignoring usage
    for L in links:
        bi, ki, bj, kj, o = L
        ti, tj = toks[dec.blocks[bi].tok], toks[dec.blocks[bj].tok]
        di = [d for a, d in ti.atts if a == ki]
        dj = [d for a, d in tj.atts if a == kj]
        if not di or not dj:
            return None, (f"bond between atom {ki} of {ti.text_ext} and atom {kj} of {tj.text_ext}: "
                          f"{'no descriptor on the first atom' if not di else 'no descriptor on the second atom'}")
        if not any(a.compatible(b) and float(a.order) == float(o) for a in di for b in dj):
            return None, (f"bond of order {o} between {ti.text_ext} (descriptors {[d.text(False) for d in di]}, orders {[d.order for d in di]}) and "
                          f"{tj.text_ext} (descriptors {[d.text(False) for d in dj]}, orders {[d.order for d in dj]}): no compatible pair with that order")
    return None, "descriptors would have to be used more than once"


def evaluate(parsed, gres, want_closed=True):
    """all structural oracles on a finished generation; returns (findings, facts)"""
    out = []
    facts = {}
    mg = gres.molgen
    mol = parsed.ast
    dec = gen.decompose(parsed, mg)
    facts["n_res"] = len(dec.blocks)
    for code, msg in dec.problems:
        out.append(("C05", code, msg, {}))
    if dec.mol is None or any(c == "partition" for c, _ in dec.problems):
        return out, facts
    toks = parsed.tokens
    owner = tok_owner(mol)
    nb = len(dec.blocks)
    # ---------------------------------------------------------------- C05: tree of whole residues
    G = nx.MultiGraph()
    G.add_nodes_from(range(nb))
    for bi, ki, bj, kj, o in dec.links:
        G.add_edge(bi, bj)
    if len(dec.links) != nb - 1:
        out.append(("C05", "tree", f"{nb} residues joined by {len(dec.links)} bonds (a tree has {nb - 1})", {}))
    if nb and not nx.is_connected(nx.Graph(G)):
        out.append(("C05", "connected", "residues do not form one connected piece", {}))
    try:
        mg_edges = sorted((min(u, v), max(u, v), order_of(d.get("bond_type"))) for u, v, d in mg.graph.edges(data=True))
        my_edges = sorted((min(bi, bj), max(bi, bj), float(o)) for bi, ki, bj, kj, o in dec.links)
        if mg_edges != my_edges:
            out.append(("C05", "residue_graph", f"MolGen.graph edges {mg_edges} differ from the bonds between residues {my_edges}", {}))
    except Exception:  # noqa: BLE001
        pass
    # rebuild from reference fragments + observed links
    try:
        ref = refchem.assemble([toks[b.tok] for b in dec.blocks], dec.links)
        if refchem.canon(ref) != refchem.canon(dec.mol):
            out.append(("C05", "rebuild", f"molecule {refchem.canon(dec.mol)} differs from the residues re-assembled from the written tokens {refchem.canon(ref)}",
                        {"bracket": any(t.text_ext.count('[') > len(t.atts) for t in toks)}))
    except Exception as exc:  # noqa: BLE001
        out.append(("C05", "rebuild", f"re-assembling the residues from the written tokens fails: {exc!r}", {}))
    msum = sum(refchem.heavy_mass(toks[b.tok]) for b in dec.blocks)
    try:
        w = float(mg.weight)
        if abs(w - msum) > 1e-9 * max(1.0, msum):
            out.append(("C05", "mass", f"weight {w} != sum of residue heavy-atom masses {msum}", {}))
    except Exception as exc:  # noqa: BLE001
        out.append(("C05", "mass", f".weight raised {exc!r}", {}))
    facts["mass"] = msum
    # ---------------------------------------------------------------- C04: compatible unused descriptors
    assign, why = assign_links(parsed, dec)
    if assign is None and why != "search_limit":
        out.append(("C04", "assignment", why, {}))
    facts["assign"] = assign
    facts["dec"] = dec
    kinds = set()
    for b in dec.blocks:
        for _, d in toks[b.tok].atts:
            kinds.add(d.kind)
    facts["n_kinds"] = len(kinds)
    # ---------------------------------------------------------------- C06: completion and order
    try:
        full = bool(mg.fully_generated)
    except Exception as exc:  # noqa: BLE001
        full = None
    if want_closed:
        if full is not True:
            out.append(("C06", "fully_generated", f"fully_generated is {full} for a closed well-posed molecule", {}))
        deg = [0] * nb
        for bi, ki, bj, kj, o in dec.links:
            deg[bi] += 1
            deg[bj] += 1
        for bi, b in enumerate(dec.blocks):
            nd = len(toks[b.tok].atts)
            if deg[bi] != nd:
                out.append(("C06", "all_descriptors_used", f"residue {bi} ({toks[b.tok].text_ext}) has {nd} descriptors but {deg[bi]} bonds to other residues", {}))
                break
    el_of = [owner[b.tok][0] for b in dec.blocks]
    role_of = [owner[b.tok][1] for b in dec.blocks]
    if any(el_of[i] > el_of[i + 1] for i in range(nb - 1)):
        out.append(("C06", "element_order", f"residues were not created in the written element order: {el_of}", {}))
    for ei, e in enumerate(mol.elements):
        cnt = sum(1 for x in el_of if x == ei)
        if isinstance(e, Tok):
            if cnt != 1:
                out.append(("C06", "token_once", f"token element {ei} ({e.text_ext}) appears {cnt} times", {}))
        else:
            nrep = sum(1 for x, r in zip(el_of, role_of) if x == ei and r == "repeat")
            if nrep < 1:
                out.append(("C06", "at_least_one_unit", f"stochastic object {ei} contributed {nrep} repeat units", {}))
    between = {}
    for bi, ki, bj, kj, o in dec.links:
        a, b = el_of[bi], el_of[bj]
        if a != b:
            between.setdefault((min(a, b), max(a, b)), []).append((bi, bj))
    for (a, b), lst in between.items():
        if b - a != 1:
            out.append(("C06", "non_adjacent", f"elements {a} and {b} are bonded although they are not adjacent", {}))
        elif len(lst) != 1:
            out.append(("C06", "one_bond_between_elements", f"elements {a} and {b} are joined by {len(lst)} bonds", {}))
    for a in range(len(mol.elements) - 1):
        if (a, a + 1) not in between and a in el_of and (a + 1) in el_of:
            out.append(("C06", "elements_joined", f"elements {a} and {a + 1} are not bonded", {}))
    if want_closed:
        deg = [0] * nb
        for bi, ki, bj, kj, o in dec.links:
            deg[bi] += 1
            deg[bj] += 1
        for bi in range(nb):
            if role_of[bi] == "end" and len(toks[dec.blocks[bi].tok].atts) == 1 and deg[bi] > 1:
                out.append(("C06", "end_group_leaf", f"end-group residue {bi} has {deg[bi]} bonds", {}))
    # terminal convention at hand-overs (needs the assignment)
    if assign is not None:
        for li, (bi, ki, bj, kj, o) in enumerate(dec.links):
            a, b = el_of[bi], el_of[bj]
            if a == b:
                continue
            (lo_b, lo_s), (hi_b, hi_s) = ((bi, assign[li][0]), (bj, assign[li][1])) if a < b else ((bj, assign[li][1]), (bi, assign[li][0]))
            lo_e, hi_e = mol.elements[min(a, b)], mol.elements[max(a, b)]
            d_lo = toks[dec.blocks[lo_b].tok].atts[lo_s][1]
            d_hi = toks[dec.blocks[hi_b].tok].atts[hi_s][1]
            if isinstance(lo_e, Stoch) and lo_e.right.symbol:
                want = BD(lo_e.right.symbol, lo_e.right.id, None, d_lo.order)  # the terminal fixes symbol and id, not the bond order
                if not want.compatible(d_lo):
                    out.append(("C06", "right_terminal", f"hand-over out of element {min(a, b)} used {d_lo.text(False)}, right terminal is {lo_e.right.text(False)}", {}))
            if isinstance(hi_e, Stoch) and hi_e.left.symbol:
                want = BD(hi_e.left.symbol, hi_e.left.id, None, d_hi.order)
                if not want.compatible(d_hi):
                    out.append(("C06", "left_terminal", f"hand-over into element {max(a, b)} used {d_hi.text(False)}, left terminal is {hi_e.left.text(False)}", {}))
    # ---------------------------------------------------------------- C07: stopping rule per stochastic object
    stoch_idx = [ei for ei, e in enumerate(mol.elements) if isinstance(e, Stoch)]
    facts["c07"] = []
    if len(gres.draws) != len(stoch_idx):
        out.append(("C07", "one_draw_per_object", f"{len(gres.draws)} target masses were drawn for {len(stoch_idx)} stochastic objects", {}))
    else:
        for k, ei in enumerate(stoch_idx):
            st = mol.elements[ei]
            T = gres.draws[k][2]
            seq = [bi for bi in range(nb) if el_of[bi] == ei]
            if not seq:
                continue
            end_start = (ei == 0 and st.left.symbol == "")
            if end_start:
                seq = seq[1:]  # the starting end group belongs to the start, not to the growth
            masses = [refchem.heavy_mass(toks[dec.blocks[bi].tok]) for bi in seq]
            roles = [role_of[bi] for bi in seq]
            lists_to_end = any(b.transitions and any(t > 0 for t in b.transitions[len(st.repeat_bds):]) for b in st.bds + [st.left])
            last_element = ei == len(mol.elements) - 1
            ok, tight, n_units = _stop_rule(masses, roles, T, lists_to_end, st.right.symbol == "" and last_element)
            facts["c07"].append({"T": T, "n": n_units, "tight": tight, "masses": masses[:n_units + 1]})
            if ok is False:
                out.append(("C07", "stop_rule", f"object {ei} target {T}: residues {list(zip(roles, [round(m, 4) for m in masses]))} do not satisfy "
                            f"'stop right after the first unit whose cumulative mass exceeds the target'", {"lists_to_end": lists_to_end}))
    return out, facts


def _stop_rule(masses, roles, T, lists_to_end, may_run_dry, tol=1e-9):
    """returns (ok|None, tight, n).  ok None = undecidable (tie)"""
    m = len(masses)

    def check(n):
        # first n residues are growth, rest are caps (must be end tokens)
        if n < 1 or n > m:
            return False, False
        if any(r != "end" for r in roles[n:]):
            return False, False
        before = sum(masses[: n - 1])
        upto = before + masses[n - 1]
        scale = max(1.0, abs(T))
        if abs(before - T) <= tol * scale or abs(upto - T) <= tol * scale:
            return None, True
        tight = abs(upto - T) <= masses[n - 1] or abs(before - T) <= masses[n - 1]
        # no strict prefix exceeded the target
        cum = 0.0
        for i in range(n - 1):
            cum += masses[i]
            if cum > T:
                return False, tight
        if upto > T:
            return True, tight
        if may_run_dry and n == m:
            return True, tight  # growth ended because no open descriptor was left
        return False, tight

    if not lists_to_end:
        n = sum(1 for r in roles if r == "repeat")
        # growth residues are exactly the repeat units and they come first
        if any(r == "repeat" for r in roles[n:]):
            return False, False, n
        ok, tight = check(n)
        return ok, tight, n
    best = (False, False, 0)
    for n in range(1, m + 1):
        ok, tight = check(n)
        if ok is True:
            return True, tight, n
        if ok is None:
            best = (None, True, n)
    return best
