"""Reference chemistry: RDKit molecules assembled atom by atom from the AST (never via SmilesToken)."""
from rdkit import Chem
from rdkit.Chem import Descriptors

from .ast import AROMATIC

_BT = {1.0: Chem.BondType.SINGLE, 2.0: Chem.BondType.DOUBLE, 3.0: Chem.BondType.TRIPLE, 1.5: Chem.BondType.AROMATIC}
_ATOM_CACHE = {}


def atom_from_label(label):
    """A fresh RDKit atom for one written atom label (bracket atoms keep their explicit H count / charge / isotope)."""
    if label not in _ATOM_CACHE:
        if label in AROMATIC:
            a = Chem.Atom(label.upper())
            a.SetIsAromatic(True)
        elif label.startswith("["):
            m = Chem.MolFromSmiles(label, sanitize=False)
            a = Chem.Atom(m.GetAtomWithIdx(0))
        else:
            a = Chem.Atom(label)
        _ATOM_CACHE[label] = a
    return Chem.Atom(_ATOM_CACHE[label])


def add_fragment(rw, tok):
    """append the atoms and internal bonds of `tok` to RWMol rw; returns index offset"""
    off = rw.GetNumAtoms()
    for lab in tok.atoms:
        rw.AddAtom(atom_from_label(lab))
    for i, j, o in tok.bonds:
        rw.AddBond(off + i, off + j, _BT[float(o)])
        if float(o) == 1.5:
            rw.GetBondBetweenAtoms(off + i, off + j).SetIsAromatic(True)
    return off


def fragment_mol(tok, sanitize=True):
    rw = Chem.RWMol()
    add_fragment(rw, tok)
    m = rw.GetMol()
    if sanitize:
        Chem.SanitizeMol(m)
    return m


def heavy_mass(tok):
    """heavy-atom mass of a residue: sum of atomic masses of its non-hydrogen atoms (as HeavyAtomMolWt)"""
    m = fragment_mol(tok, sanitize=False)
    return sum(a.GetMass() for a in m.GetAtoms() if a.GetAtomicNum() != 1)


def atom_sig(a):
    return (a.GetAtomicNum(), a.GetFormalCharge(), a.GetIsotope(), bool(a.GetIsAromatic()))


def bond_order(b):
    bt = b.GetBondType()
    if b.GetIsAromatic() or bt == Chem.BondType.AROMATIC:
        return 1.5
    return {Chem.BondType.SINGLE: 1.0, Chem.BondType.DOUBLE: 2.0, Chem.BondType.TRIPLE: 3.0}.get(bt, float(b.GetBondTypeAsDouble()))


def mol_graph(m, offset=0, n=None):
    """(atom signatures in order, set of (i,j,order)) for atoms offset..offset+n"""
    n = m.GetNumAtoms() - offset if n is None else n
    sigs = [atom_sig(m.GetAtomWithIdx(offset + i)) for i in range(n)]
    bonds = set()
    for b in m.GetBonds():
        i, j = b.GetBeginAtomIdx() - offset, b.GetEndAtomIdx() - offset
        if 0 <= i < n and 0 <= j < n:
            bonds.add((min(i, j), max(i, j), bond_order(b)))
    return sigs, bonds


def tok_graph(tok):
    m = fragment_mol(tok, sanitize=True)
    return mol_graph(m)


def assemble(residues, links):
    """residues: list of Tok; links: list of (res_a, atom_a, res_b, atom_b, order). Returns sanitized Mol."""
    rw = Chem.RWMol()
    offs = [add_fragment(rw, t) for t in residues]
    for ra, aa, rb, ab, o in links:
        rw.AddBond(offs[ra] + aa, offs[rb] + ab, _BT[float(o)])
    m = rw.GetMol()
    Chem.SanitizeMol(m)
    return m


def canon(m):
    return Chem.MolToSmiles(m)


def heavy_weight(m):
    return Descriptors.HeavyAtomMolWt(m)
