"""Make sure `gbigsmiles` is imported from the *current working tree* of the repository.

$VERIF_REPO_SRC (default /repo/src) is put first on sys.path.  If `gbigsmiles` then resolves to
another place the harness refuses to run (exit 2): evidence must never describe some other copy.
"""
import os
import sys
import warnings

REPO_SRC = os.path.abspath(os.environ.get("VERIF_REPO_SRC", "/repo/src"))
REPO_ROOT = os.path.dirname(REPO_SRC)
VERIF_ROOT = os.path.dirname(os.path.dirname(os.path.abspath(__file__)))

if REPO_SRC in sys.path:
    sys.path.remove(REPO_SRC)
sys.path.insert(0, REPO_SRC)

warnings.simplefilter("ignore")
os.environ.setdefault("GBIGSMILES_VERIF", "1")


class HarnessError(Exception):
    """The harness could not do its job (exit status 2, never a VIOLATION)."""


def import_repo():
    try:
        from rdkit import RDLogger

        RDLogger.DisableLog("rdApp.*")
    except Exception:  # pragma: no cover
        pass
    try:
        import gbigsmiles
    except Exception as exc:  # a tree that does not import is not something a check can judge
        raise HarnessError(f"cannot import gbigsmiles from {REPO_SRC}: {exc!r}") from exc
    here = os.path.abspath(gbigsmiles.__file__)
    if not here.startswith(REPO_SRC + os.sep):
        raise HarnessError(f"gbigsmiles resolves to {here}, expected under {REPO_SRC}")
    return gbigsmiles
