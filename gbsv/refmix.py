"""Reference mixture solver: unknown system mass S and per component (absolute a_i, percentage r_i) with
a_i = r_i*S/100, sum r_i = 100, the written values and an optional external S.
classify(specs, ext) -> ('determined', S, [(a_i, r_i)]) | ('under', reason) | ('contradictory', reason)
specs: list of ('abs', x) | ('pct', x) | None
"""

TOL = 1e-6


def classify(specs, ext=None):
    n = len(specs)
    A = [i for i, s in enumerate(specs) if s and s[0] == "abs"]
    P = [i for i, s in enumerate(specs) if s and s[0] == "pct"]
    N = [i for i, s in enumerate(specs) if s is None]
    for i in P:
        if specs[i][1] < -1e-12 or specs[i][1] > 100 + 1e-12:
            return ("contradictory", "percentage outside 0-100")
    for i in A:
        if specs[i][1] < 0:
            return ("contradictory", "negative mass")
    if len(N) > 1:
        return ("under", "more than one component unspecified")
    p = sum(specs[i][1] for i in P)
    a = sum(specs[i][1] for i in A)
    if p > 100 + TOL:
        return ("contradictory", "percentages exceed 100")
    # percentages that sum to 100 only up to rounding (14.285714285714286 + 85.71428571428572): whether 0 %, a tiny positive or a
    # tiny negative share is left for the other components is decided by the last bit - outside the domain (positive shares)
    exact = all(float(specs[i][1]) == int(specs[i][1]) for i in P)
    if P and abs(p - 100.0) <= TOL and (N or A) and not (exact and p == 100.0 and not N):
        return ("degenerate", "percentages sum to 100 within rounding while further components exist")
    S = None
    if ext is not None:
        S = float(ext)
    elif not P and not N and A:
        S = a
    elif A and P and not N:
        if p >= 100 - TOL:
            # the absolute components would have to share 0 %
            return ("contradictory", "percentages already sum to 100 but further components carry mass") if a > TOL else ("under", "no mass information")
        S = 100.0 * a / (100.0 - p)
    if S is None:
        # system mass unknown
        if not N and not A and abs(p - 100) > TOL:
            return ("contradictory", "percentages do not sum to 100")
        return ("under", "system mass cannot be derived")
    if S <= 0:
        return ("contradictory", "system mass not positive")
    r = [None] * n
    for i in P:
        r[i] = specs[i][1]
    for i in A:
        r[i] = 100.0 * specs[i][1] / S
    known = sum(x for x in r if x is not None)
    if N:
        rest = 100.0 - known
        if rest < -TOL:
            return ("contradictory", "components exceed the system mass")
        if rest <= TOL:
            return ("degenerate", "the unspecified component would get 0 % (outside the property's domain of positive shares)")
        r[N[0]] = rest
    else:
        if abs(known - 100.0) > TOL * 100:
            return ("contradictory", f"percentages sum to {known}")
    return ("determined", S, [(ri * S / 100.0, ri) for ri in r])
