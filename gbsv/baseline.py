"""Pristine baseline: a template process that has imported gbigsmiles and done nothing else; every request is
answered by a fork of it, so the answer has no parse / generate / typing history at all."""
import json
import os
import signal
import sys


def _answer(req):
    import numpy as np
    import gbigsmiles
    import gbigsmiles.core as core

    try:
        core._GLOBAL_RNG.bit_generator.state = np.random.default_rng(987654321).bit_generator.state
    except Exception:  # noqa: BLE001
        pass
    op = req["op"]
    cls = getattr(gbigsmiles, req.get("cls", "Molecule"))
    try:
        obj = cls(req["text"]) if "sysmass" not in req else cls(req["text"], req["sysmass"])
    except Exception as exc:  # noqa: BLE001
        return ["parse_raise", type(exc).__name__]
    if op == "gen":
        try:
            mg = obj.generate(rng=np.random.default_rng(req["k"]))
            return ["ok", mg.smiles, round(float(mg.weight), 6)]
        except Exception as exc:  # noqa: BLE001
            return ["raise", type(exc).__name__]
    if op == "mirror_gen":
        try:
            mir = obj.gen_mirror()
            if mir is None:
                return ["none"]
            mg = mir.generate(rng=np.random.default_rng(req["k"]))
            return ["ok", mg.smiles, round(float(mg.weight), 6)]
        except Exception as exc:  # noqa: BLE001
            return ["raise", type(exc).__name__]
    if op == "ens":
        try:
            from .probe import system_generator
            out = []
            for mg in system_generator(obj, np.random.default_rng(req["k"])):
                out.append([mg.smiles, round(float(mg.weight), 6)])
                if len(out) > 400:
                    break
            return ["ok", out]
        except Exception as exc:  # noqa: BLE001
            return ["raise", type(exc).__name__]
    if op == "ff":
        try:
            mg = obj.generate(rng=np.random.default_rng(req["k"]))
            ff, mol = mg.forcefield_types
            return ["ok", [[a.GetIdx(), a.GetAtomicNum(), repr(ff[a.GetIdx()])] for a in mol.GetAtoms()]]
        except Exception as exc:  # noqa: BLE001
            return ["raise", type(exc).__name__]
    return ["unknown_op"]


class Baseline:
    def __init__(self):
        self.req_r, self.req_w = os.pipe()
        self.res_r, self.res_w = os.pipe()
        pid = os.fork()
        if pid == 0:
            try:
                os.close(self.req_w)
                os.close(self.res_r)
                signal.signal(signal.SIGALRM, signal.SIG_DFL)
                fin = os.fdopen(self.req_r, "r")
                for line in fin:
                    req = json.loads(line)
                    c = os.fork()
                    if c == 0:
                        try:
                            signal.alarm(int(req.get("timeout", 120)))
                            res = _answer(req)
                        except BaseException as exc:  # noqa: BLE001
                            res = ["baseline_error", repr(exc)[:200]]
                        try:
                            os.write(self.res_w, (json.dumps(res) + "\n").encode())
                        finally:
                            os._exit(0)
                    _, st = os.waitpid(c, 0)
                    if st != 0:
                        os.write(self.res_w, (json.dumps(["baseline_died", st]) + "\n").encode())
            finally:
                os._exit(0)
        os.close(self.req_r)
        os.close(self.res_w)
        self.pid = pid
        self.fout = os.fdopen(self.req_w, "w")
        self.fin = os.fdopen(self.res_r, "r")
        self.cache = {}

    def ask(self, **req):
        key = json.dumps(req, sort_keys=True)
        if key not in self.cache:
            self.fout.write(key + "\n")
            self.fout.flush()
            line = self.fin.readline()
            if not line:
                raise RuntimeError("baseline server died")
            self.cache[key] = json.loads(line)
        return self.cache[key]

    def close(self):
        try:
            self.fout.close()
            os.waitpid(self.pid, 0)
            self.fin.close()
        except Exception:  # noqa: BLE001
            pass
