"""Per-shard accumulator: counts, labels, samples, violations.  Plain data so that it crosses processes."""
import hashlib
import json
from collections import Counter


def _h(x):
    if not isinstance(x, str):
        x = json.dumps(x, sort_keys=True, default=str)
    return hashlib.sha1(x.encode()).hexdigest()[:16]


class Acc:
    MAX_SAMPLES = 12
    MAX_VIOL_PER_BUCKET = 6

    def __init__(self):
        self.evaluations = 0
        self.nontrivial = set()
        self.labels = Counter()
        self.samples = []
        self.violations = {}  # bucket -> list of dicts
        self.viol_counts = Counter()
        self.counters = Counter()  # free-form measured numbers (excluded, dropped, observations ...)
        self.extra = {}

    # ---------------------------------------------------------------- recording
    def case(self, nontrivial_key=None, labels=()):
        """One generated case was evaluated. nontrivial_key: hashable/str identity if non-trivial."""
        self.evaluations += 1
        if nontrivial_key is not None:
            self.nontrivial.add(_h(nontrivial_key))
        for lab in labels:
            self.labels[lab] += 1

    def label(self, *labs):
        for lab in labs:
            self.labels[lab] += 1

    def sample(self, obj, force=False):
        if force or len(self.samples) < self.MAX_SAMPLES:
            self.samples.append(obj)

    def count(self, key, n=1):
        self.counters[key] += n

    def violation(self, oracle, message, case, sig=None, size=None):
        """Record an oracle failure.

        oracle : short id of the sub-oracle that failed
        sig    : dict of structural facts about the failing case; known findings are matched on it
        case   : JSON-able description sufficient to replay (string(s), seeds, scripts ...)
        """
        sig = dict(sig or {})
        bucket = oracle + "|" + json.dumps(sig, sort_keys=True, default=str)
        self.viol_counts[bucket] += 1
        lst = self.violations.setdefault(bucket, [])
        if size is None:
            size = len(json.dumps(case, default=str))
        entry = {"oracle": oracle, "sig": sig, "message": str(message)[:2000], "case": case, "size": size}
        lst.append(entry)
        lst.sort(key=lambda e: e["size"])
        del lst[self.MAX_VIOL_PER_BUCKET:]

    # ---------------------------------------------------------------- transport
    def to_dict(self):
        return {
            "evaluations": self.evaluations,
            "nontrivial": sorted(self.nontrivial),
            "labels": dict(self.labels),
            "samples": self.samples,
            "violations": self.violations,
            "viol_counts": dict(self.viol_counts),
            "counters": dict(self.counters),
            "extra": self.extra,
        }

    @staticmethod
    def merge(dicts):
        out = Acc()
        for d in dicts:
            out.evaluations += d["evaluations"]
            out.nontrivial.update(d["nontrivial"])
            out.labels.update(d["labels"])
            out.counters.update(d["counters"])
            out.viol_counts.update(d["viol_counts"])
            for s in d["samples"]:
                out.samples.append(s)
            for b, lst in d["violations"].items():
                cur = out.violations.setdefault(b, [])
                cur.extend(lst)
                cur.sort(key=lambda e: e["size"])
                del cur[Acc.MAX_VIOL_PER_BUCKET:]
            for k, v in d["extra"].items():
                if k not in out.extra:
                    out.extra[k] = v
                elif isinstance(v, list) and isinstance(out.extra[k], list):
                    out.extra[k] = out.extra[k] + v
                elif isinstance(v, (int, float)) and isinstance(out.extra[k], (int, float)):
                    out.extra[k] = out.extra[k] + v
                elif isinstance(v, dict) and isinstance(out.extra[k], dict):
                    out.extra[k].update(v)
        # keep a spread of samples from all shards
        if len(out.samples) > 16:
            step = len(out.samples) / 16.0
            out.samples = [out.samples[int(i * step)] for i in range(16)]
        return out
