"""Reference selection law, exact outcome enumerator and closability analysis.

Written from README "Notation of details", the property statements and DESIGN.md §0.  Imports nothing from
gbigsmiles.  All probabilities are plain floats.
"""
from dataclasses import dataclass
from typing import List, Optional

from .ast import BD, CONJ, Mol, Stoch, Tok
from . import refchem


class IllPosed(Exception):
    """the notation can run into a state where the documented process has no admissible option"""


# ------------------------------------------------------------------------------------------ the law
def normalise(weights):
    """weights -> probabilities with the equal-weights rule (all equal, including all zero => uniform)."""
    n = len(weights)
    if n == 0:
        raise IllPosed("no option")
    if all(w == weights[0] for w in weights):
        return [1.0 / n] * n
    s = float(sum(weights))
    if s <= 0:
        raise IllPosed("weights sum to zero")
    return [w / s for w in weights]


@dataclass
class OD:
    """an open descriptor on the growing molecule"""
    bd: BD  # effective descriptor (weight / list possibly replaced at hand-over)
    res: int  # residue instance index
    atom: int  # atom index inside that residue
    slot: int  # which descriptor of the residue's token


def pick_open(opens):
    return normalise([o.bd.w for o in opens])


def partner_law(st: Stoch, d: BD):
    """[(index into st.bds (repeat first, then end), p)] for the unit that open descriptor d bonds next."""
    allb = st.bds
    tr = d.transitions
    if tr is not None:
        if len(tr) != len(allb):
            raise IllPosed("transition list length")
        tot = float(sum(tr))
        if tot <= 0:
            raise IllPosed("transition list sums to zero")
        return [(i, t / tot) for i, t in enumerate(tr)]
    rep = st.repeat_bds
    idx = [i for i, b in enumerate(rep) if d.compatible(b)]
    if not idx:
        raise IllPosed(f"open descriptor {d.text()} has no compatible repeat-unit descriptor")
    p = normalise([rep[i].w for i in idx])
    return list(zip(idx, p))


def cap_law(st: Stoch, d: BD):
    """[(index into st.end_bds, p)]"""
    end = st.end_bds
    idx = [i for i, b in enumerate(end) if d.compatible(b)]
    if not idx:
        raise IllPosed(f"open descriptor {d.text()} has no compatible end group")
    p = normalise([end[i].w for i in idx])
    return list(zip(idx, p))


def start_law(st: Stoch):
    end = st.end_bds
    if not end:
        raise IllPosed("no end group to start from")
    p = normalise([b.w for b in end])
    return list(enumerate(p))


def token_law(tok: Tok, d: BD):
    idx = [i for i, b in enumerate(tok.bds) if d.compatible(b)]
    if not idx:
        raise IllPosed(f"token {tok.text_ext} has no descriptor compatible with {d.text()}")
    p = normalise([tok.bds[i].w for i in idx])
    return list(zip(idx, p))


def reserve_law(st: Stoch, opens):
    """which open descriptor is kept for the right terminal: [(index into opens, p)]"""
    want = BD(st.right.symbol, st.right.id, None, st.right.order)  # the descriptor the outside carries
    idx = [i for i, o in enumerate(opens) if want.compatible(o.bd)]
    if not idx:
        raise IllPosed("no open descriptor for the right terminal")
    p = normalise([opens[i].bd.w for i in idx])
    return list(zip(idx, p))


def locate(st: Stoch, gi):
    """global descriptor index of the object -> (token, slot in token, is_end)"""
    k = 0
    for t in st.repeat:
        if gi < k + len(t.atts):
            return t, gi - k, False
        k += len(t.atts)
    for t in st.end:
        if gi < k + len(t.atts):
            return t, gi - k, True
        k += len(t.atts)
    raise IndexError(gi)


# ----------------------------------------------------------------------------- exact outcome enumerator
class _S:
    __slots__ = ("res", "links", "opens", "mass", "log")

    def __init__(self, res=None, links=None, opens=None, mass=0.0):
        self.res = res or []
        self.links = links or []
        self.opens = opens or []
        self.mass = mass

    def copy(self):
        return _S(list(self.res), list(self.links), list(self.opens), self.mass)

    def add_res(self, tok):
        self.res.append(tok)
        self.mass += refchem.heavy_mass(tok)
        return len(self.res) - 1

    def attach(self, oi, tok, slot):
        """bond open descriptor #oi with descriptor `slot` of a new copy of tok"""
        o = self.opens[oi]
        a, b = tok.atts[slot]
        if not o.bd.compatible(b):
            raise IllPosed(f"{o.bd.text()} cannot bond {b.text()}")
        r = self.add_res(tok)
        self.links.append((o.res, o.atom, r, a, o.bd.order))
        del self.opens[oi]
        for k, (aa, bb) in enumerate(tok.atts):
            if k != slot:
                self.opens.append(OD(bb, r, aa, k))
        return r


_MASS_CACHE = {}
_CANON_CACHE = {}


def enumerate_outcomes(mol: Mol, targets, max_paths=200000, tie_tol=1e-9):
    """Exact distribution over final molecules for fixed targets (one per stochastic object, in order).

    Returns dict canonical SMILES -> probability, and the number of reference paths.
    Raises IllPosed if some path has no admissible option.  Raises ValueError('tie') if a stopping decision is
    within tie_tol (relative) of the target.
    """
    out = {}
    npaths = [0]
    tgt = list(targets)

    def finish(s, p):
        npaths[0] += 1
        if npaths[0] > max_paths:
            raise OverflowError("too many paths")
        ck = (tuple(id(t) for t in s.res), tuple(s.links))
        key = _CANON_CACHE.get(ck)
        if key is None:
            m = refchem.assemble(s.res, s.links)
            key = refchem.canon(m)
            if len(_CANON_CACHE) > 200000:
                _CANON_CACHE.clear()
            _CANON_CACHE[ck] = key
        out[key] = out.get(key, 0.0) + p

    def elem(ei, s, p, ti):
        if ei == len(mol.elements):
            if s is not None and s.opens:
                pass  # not fully generated: still an outcome (the open descriptor is simply left)
            finish(s, p)
            return
        e = mol.elements[ei]
        if isinstance(e, Tok):
            if s is None:
                s2 = _S()
                r = s2.add_res(e)
                s2.opens = [OD(b, r, a, k) for k, (a, b) in enumerate(e.atts)]
                elem(ei + 1, s2, p, ti)
            else:
                if len(s.opens) != 1:
                    raise IllPosed(f"{len(s.opens)} open descriptors in front of token {e.text_ext}")
                for slot, q in token_law(e, s.opens[0].bd):
                    if q <= 0:
                        continue
                    s2 = s.copy()
                    s2.attach(0, e, slot)
                    elem(ei + 1, s2, p * q, ti)
            return
        # stochastic object
        st = e
        T = tgt[ti]
        if s is None:
            if st.left.symbol != "":
                raise IllPosed("left terminal needs a prefix")
            for gi, q in start_law(st):
                if q <= 0:
                    continue
                tok, slot, _ = locate(st, len(st.repeat_bds) + gi)
                if len(tok.atts) != 1:
                    raise IllPosed("starting end group needs exactly one descriptor")
                s2 = _S()
                r = s2.add_res(tok)
                s2.opens = [OD(tok.atts[0][1], r, tok.atts[0][0], 0)]
                grow(ei, st, s2, p * q, ti, T, s2.mass, 0)
        else:
            if len(s.opens) != 1:
                raise IllPosed("exactly one open descriptor expected at hand-over")
            o = s.opens[0]
            if (o.bd.symbol, o.bd.id) != (st.left.symbol, st.left.id):
                raise IllPosed("open descriptor differs from the left terminal")
            s2 = s.copy()
            nb = BD(o.bd.symbol, o.bd.id, st.left.weight, o.bd.order)
            s2.opens[0] = OD(nb, o.res, o.atom, o.slot)
            grow(ei, st, s2, p, ti, T, s2.mass, 0)

    def grow(ei, st, s, p, ti, T, m0, n):
        # add one unit
        po = pick_open(s.opens)
        for oi, q1 in enumerate(po):
            if q1 <= 0:
                continue
            d = s.opens[oi].bd
            for gi, q2 in partner_law(st, d):
                if q2 <= 0:
                    continue
                tok, slot, _ = locate(st, gi)
                s2 = s.copy()
                s2.attach(oi, tok, slot)
                added = s2.mass - m0
                pp = p * q1 * q2
                if not s2.opens:
                    after(ei, st, s2, pp, ti)  # premature end: nothing left to grow from
                    continue
                if abs(added - T) <= tie_tol * max(1.0, abs(T)):
                    raise ValueError("tie")
                if added > T:
                    finalize(ei, st, s2, pp, ti)
                else:
                    grow(ei, st, s2, pp, ti, T, m0, n + 1)

    def finalize(ei, st, s, p, ti):
        if st.right.symbol != "":
            for oi, q in reserve_law(st, s.opens):
                if q <= 0:
                    continue
                s2 = s.copy()
                keep = s2.opens.pop(oi)
                cap(ei, st, s2, p * q, ti, keep)
        else:
            cap(ei, st, s, p, ti, None)

    def cap(ei, st, s, p, ti, keep):
        if not s.opens:
            s2 = s.copy()
            if keep is not None:
                s2.opens.append(keep)
            after(ei, st, s2, p, ti)
            return
        po = pick_open(s.opens)
        for oi, q1 in enumerate(po):
            if q1 <= 0:
                continue
            for gi, q2 in cap_law(st, s.opens[oi].bd):
                if q2 <= 0:
                    continue
                tok, slot, _ = locate(st, len(st.repeat_bds) + gi)
                s2 = s.copy()
                s2.attach(oi, tok, slot)
                cap(ei, st, s2, p * q1 * q2, ti, keep)

    def after(ei, st, s, p, ti):
        elem(ei + 1, s, p, ti + 1)

    elem(0, None, 1.0, 0)
    return out, npaths[0]


# ------------------------------------------------------------------------------- closability analysis
def _akey(bd: BD):
    return (bd.symbol, bd.id, bd.order, bd.w > 0, tuple(bd.transitions) if bd.transitions else None)


def _support(ws):
    """indices that can be picked under the equal-weights rule"""
    if not ws:
        return []
    if all(w == ws[0] for w in ws):
        return list(range(len(ws)))
    return [i for i, w in enumerate(ws) if w > 0]


def well_posed(mol: Mol, need_closed=True, cap=2):
    """Abstract reachability over multisets (counts capped) of open-descriptor kinds.

    True iff, whatever the random choices and targets, every step of the documented process finds an admissible
    option, generation of every element starts from exactly one open descriptor that matches the terminal
    convention, and (need_closed) the molecule ends with no open descriptor.
    Returns (ok, reason).
    """
    try:
        # 'entry' = set of possible single open descriptors (as BD) carried into the next element; None = nothing yet
        entry = None
        n = len(mol.elements)
        for ei, e in enumerate(mol.elements):
            if isinstance(e, Tok):
                if entry is None:
                    if ei != 0:
                        return False, "nothing open in front of a token"
                    outs = [b for b in e.bds]
                    if len(outs) > 1:
                        return False, "first token has more than one descriptor"
                    entry = [outs[0]] if outs else []
                    if not outs and n > 1:
                        return False, "first token has no descriptor"
                    continue
                if not entry:
                    return False, "no open descriptor in front of a token"
                nxt = []
                for d in entry:
                    idx = [i for i, b in enumerate(e.bds) if d.compatible(b)]
                    if not idx:
                        return False, f"token {e.text_ext} cannot bond {d.text()}"
                    for i in _support([e.bds[j].w for j in idx]):
                        rest = [b for k, b in enumerate(e.bds) if k != idx[i]]
                        if len(rest) > 1:
                            return False, "connector token with more than two descriptors"
                        nxt.append(rest[0] if rest else None)
                if any(x is None for x in nxt) and any(x is not None for x in nxt):
                    return False, "connector sometimes closes the chain"
                entry = [x for x in nxt if x is not None]
                continue
            st: Stoch = e
            ok, reason, entry = _stoch_posed(st, entry, ei == 0, cap)
            if not ok:
                return False, reason
        if need_closed and entry:
            return False, "molecule ends with an open descriptor"
        return True, ""
    except IllPosed as exc:
        return False, str(exc)


def _stoch_posed(st: Stoch, entry, first, cap):
    kinds = {}  # akey -> BD representative

    def reg(bd):
        k = _akey(bd)
        kinds.setdefault(k, bd)
        return k

    starts = []
    if entry is None or (first and not entry):
        if st.left.symbol != "":
            return False, "left terminal without prefix", None
        if not st.end_bds:
            return False, "no end group to start from", None
        for i in _support([b.w for b in st.end_bds]):
            tok, slot, _ = locate(st, len(st.repeat_bds) + i)
            if len(tok.atts) != 1:
                return False, "start end group with several descriptors", None
            starts.append(((reg(tok.atts[0][1]), 1),))
    else:
        if st.left.symbol == "":
            return False, "empty left terminal but something is open", None
        for d in entry:
            if (d.symbol, d.id) != (st.left.symbol, st.left.id):
                return False, "open descriptor differs from the left terminal", None
            nb = BD(d.symbol, d.id, st.left.weight, d.order)
            starts.append(((reg(nb), 1),))

    def norm(ms):
        return tuple(sorted(((k, min(c, cap)) for k, c in ms.items() if c > 0), key=repr))

    seen = set()
    todo = [dict(s) for s in starts]
    exits = {}
    after_unit = []  # states in which finalisation may happen
    # growth
    while todo:
        ms = todo.pop()
        key = norm(ms)
        if key in seen:
            continue
        seen.add(key)
        ks = list(ms.keys())
        for oi in _support([kinds[k].w for k in ks]):
            k = ks[oi]
            d = kinds[k]
            law = partner_law(st, d)
            for gi, p in law:
                if p <= 0:
                    continue
                tok, slot, is_end = locate(st, gi)
                if not d.compatible(tok.atts[slot][1]):
                    return False, f"list of {d.text()} points at incompatible descriptor", None
                ms2 = dict(ms)
                ms2[k] -= 1
                if ms2[k] <= 0:
                    # with capped counts the true count may still be larger: explore both
                    if ms[k] >= cap:
                        ms3 = dict(ms2)
                        ms3[k] = cap
                        for kk, (aa, bb) in enumerate(tok.atts):
                            if kk != slot:
                                q = reg(bb)
                                ms3[q] = min(cap, ms3.get(q, 0) + 1)
                        after_unit.append(ms3)
                        todo.append(ms3)
                    del ms2[k]
                for kk, (aa, bb) in enumerate(tok.atts):
                    if kk != slot:
                        q = reg(bb)
                        ms2[q] = min(cap, ms2.get(q, 0) + 1)
                after_unit.append(ms2)
                if ms2:
                    todo.append(ms2)
    # finalisation from every state that can follow a unit
    outs = []
    done = set()
    for ms in after_unit:
        key = norm(ms)
        if key in done:
            continue
        done.add(key)
        if not ms:
            if st.right.symbol != "":
                return False, "growth can use up every open descriptor although the right terminal is not []", None
            continue
        ks = list(ms.keys())
        if st.right.symbol != "":
            want = BD(st.right.symbol, st.right.id, None, st.right.order)
            idx = [i for i, k in enumerate(ks) if want.compatible(kinds[k])]
            if not idx:
                return False, "a reachable state has no open descriptor for the right terminal", None
            for i in _support([kinds[ks[j]].w for j in idx]):
                rk = ks[idx[i]]
                rest = dict(ms)
                rest[rk] -= 1
                variants = [rest]
                if ms[rk] >= cap:
                    r2 = dict(ms)
                    variants.append(r2)
                for r in variants:
                    for k2, c in r.items():
                        if c > 0:
                            cap_law(st, kinds[k2])
                outs.append(kinds[rk])
        else:
            for k2, c in ms.items():
                if c > 0:
                    cap_law(st, kinds[k2])
    for t in st.end:
        pass
    # capping attaches end tokens: they must not bring new open descriptors that cannot be capped themselves
    for t in st.end:
        if len(t.atts) > 1:
            for _, b in t.atts:
                cap_law(st, b)
    if st.right.symbol == "":
        return True, "", []
    # distinct hand-over descriptors
    uniq = {}
    for b in outs:
        uniq[_akey(b)] = b
    return True, "", list(uniq.values())
