"""Shrinking of recorded failures: the runner keeps, per failure bucket, the smallest failing case it saw; a check module may
offer `shrink_candidates(case)` (smaller variants of a case, most aggressive first).  `minimise` applies them greedily as long
as the *same oracle* still fails when the candidate is replayed through the module's own `replay` - the minimal case becomes
the replay file.  Bounded by a number of replays, never by a verdict."""
import time


def still_fails(mod, case, rec, oracle):
    try:
        acc = mod.replay(case, rec)
    except BaseException:  # noqa: BLE001 - a candidate the harness cannot even run is simply not a reduction
        return False
    return any(lst and lst[0]["oracle"] == oracle for lst in acc.violations.values())


def minimise(mod, case, rec, oracle, max_replays=60, max_seconds=120.0):
    """greedy descent over mod.shrink_candidates; returns (case, replays used, reductions applied)"""
    if not hasattr(mod, "shrink_candidates"):
        return case, 0, 0
    t_end = time.time() + max_seconds
    used = applied = 0
    progress = True
    while progress and used < max_replays and time.time() < t_end:
        progress = False
        for cand in mod.shrink_candidates(case):
            if used >= max_replays or time.time() > t_end:
                break
            used += 1
            if still_fails(mod, cand, rec, oracle):
                case = cand
                applied += 1
                progress = True
                break
    return case, used, applied


def chunks_removed(items, keep_first=0):
    """candidates of ddmin flavour: the list with one chunk removed, halves first, single items last"""
    n = len(items) - keep_first
    size = max(1, n // 2)
    seen = set()
    while size >= 1:
        for a in range(keep_first, len(items), size):
            cand = items[:a] + items[a + size:]
            key = (a, size)
            if key not in seen and len(cand) < len(items):
                seen.add(key)
                yield cand
        if size == 1:
            break
        size //= 2


# ------------------------------------------------------------------------------------------ molecule ASTs
def _fix_lists(sto, removed):
    """remove the list entries that pointed at the descriptors with the indices in `removed`"""
    keep = [i for i in range(len(sto.bds) + len(removed)) if i not in removed]
    for b in [sto.left, sto.right] + sto.bds:
        if isinstance(b.weight, (tuple, list)):
            b.weight = tuple(b.weight[i] for i in keep if i < len(b.weight))


def _finish(mol):
    from .ast import Stoch
    from .strategies import _reprint
    for k, e in enumerate(mol.elements):
        if isinstance(e, Stoch):
            _reprint(e)
            mol.written[k] = e.text()
    return mol


def mol_candidates(mol_json, need_well_posed=True):
    """smaller variants of a molecule AST (JSON): fewer repeat units / end groups (lists adjusted), lists removed, scalar weights
    removed, ids removed.  Only variants that stay inside the domain (closability analysis) are offered."""
    from . import reflaw
    from .ast import Mol, Stoch

    def variants():
        base = Mol.from_json(mol_json)
        stos = [k for k, e in enumerate(base.elements) if isinstance(e, Stoch)]
        for k in stos:
            sto = base.elements[k]
            nrep = len(sto.repeat)
            for r in range(nrep if nrep >= 2 else 0):
                m = Mol.from_json(mol_json)
                s = m.elements[k]
                off = sum(len(t.atts) for t in s.repeat[:r])
                removed = set(range(off, off + len(s.repeat[r].atts)))
                del s.repeat[r]
                _fix_lists(s, removed)
                yield m
            for r in range(len(sto.end)):
                m = Mol.from_json(mol_json)
                s = m.elements[k]
                off = len(s.repeat_bds) + sum(len(t.atts) for t in s.end[:r])
                removed = set(range(off, off + len(s.end[r].atts)))
                del s.end[r]
                _fix_lists(s, removed)
                yield m
        for k in stos:
            m = Mol.from_json(mol_json)
            s = m.elements[k]
            ch = False
            for b in [s.left, s.right] + s.bds:
                if isinstance(b.weight, (tuple, list)):
                    b.weight = None
                    ch = True
            if ch:
                yield m
        for k in stos:
            m = Mol.from_json(mol_json)
            s = m.elements[k]
            ch = False
            for b in [s.left, s.right] + s.bds:
                if b.weight is not None and not isinstance(b.weight, (tuple, list)) and b.weight != 0:
                    b.weight = None
                    ch = True
            if ch:
                yield m

    for m in variants():
        try:
            m = _finish(m)
            if need_well_posed and not reflaw.well_posed(m)[0]:
                continue
            yield m.to_json(), m.text(False)
        except Exception:  # noqa: BLE001 - a variant that cannot be printed is not a candidate
            continue
