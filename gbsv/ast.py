"""Reference AST of the G-BigSMILES notation and an independent printer.

Nothing here imports gbigsmiles.  A token is a *written tree*: atoms and bond descriptors are nodes, the
printer is an ordinary SMILES tree writer in which a descriptor is written exactly like a leaf atom.  The
ground truth (atoms in written order, bonds, descriptor -> atom, bond order) is therefore known by
construction - "as if the descriptor were an atom written at that position".
"""
import json
from dataclasses import dataclass, field
from typing import List, Optional, Tuple, Union

ORDER_SYM = {1: "", 2: "=", 3: "#"}
CONJ = {"$": "$", "<": ">", ">": "<"}


def fmt_num(x, style="plain"):
    """Different spellings of the same number; all are read back by float()."""
    x = float(x)
    if style == "plain":
        return repr(x) if x != int(x) else str(int(x))
    if style == "float":
        return repr(x)
    if style == "exp":
        return f"{x:.12g}e0" if "e" not in f"{x:.12g}" else f"{x:.12g}"
    if style == "lead0":
        return "0" + (repr(x) if x != int(x) else str(int(x)))
    if style == "nolead":  # .5
        r = repr(x)
        return r[1:] if r.startswith("0.") else r
    if style == "traildot":  # 3.
        return str(int(x)) + "." if x == int(x) else repr(x)
    if style in ("dotexp", "dotExp"):  # 3.e2   5.e-1   3.E+02 : integer mantissa with a bare decimal point and an exponent
        if x == 0:
            return "0.e0" if style == "dotexp" else "0.E+00"
        for k in (3, 2, 1, 0, -1, -2, -3, -4, -5, -6, -9, -10):
            m = x / 10.0 ** k
            if m == int(m) and abs(m) < 1e15:
                t = f"{int(m)}.e{k}" if style == "dotexp" else f"{int(m)}.E{k:+03d}"
                if float(t) == x:
                    return t
        return repr(x)
    if style == "Eupper":  # 3E0  1.5E2
        t = f"{x:.17g}"
        t = t.upper() if "e" in t else t + "E0"
        return t if float(t) == x else repr(x)
    if style == "expsigned":  # 30.0e-01  0.25e+01
        for k in (-1, 1, -2, 2):
            t = f"{x / 10.0 ** k!r}e{k:+03d}"
            if "e" not in repr(x / 10.0 ** k) and float(t) == x:
                return t
        return repr(x)
    raise ValueError(style)


# ---------------------------------------------------------------------------------------- descriptors
@dataclass
class BD:
    symbol: str  # '$', '<', '>' or '' (the empty terminal [])
    id: Optional[int] = None
    weight: Union[None, float, Tuple[float, ...]] = None  # None | scalar | list
    order: int = 1
    wstyle: str = "plain"
    explicit_single: bool = False  # write '-' in front (only meaningful inside tokens)

    @property
    def w(self):
        if self.weight is None:
            return 1.0
        if isinstance(self.weight, (tuple, list)):
            return float(sum(self.weight))
        return float(self.weight)

    @property
    def transitions(self):
        if isinstance(self.weight, (tuple, list)):
            return [float(t) for t in self.weight]
        return None

    @property
    def kind(self):
        return (self.symbol, self.id, self.order)

    def compatible(self, other):
        if self.symbol == "" or other.symbol == "":
            return False
        return self.id == other.id and self.order == other.order and CONJ[self.symbol] == other.symbol

    def text(self, ext=True):
        if self.symbol == "":
            return "[]"
        s = "[" + self.symbol + ("" if self.id is None else str(self.id))
        if ext and self.weight is not None:
            if isinstance(self.weight, (tuple, list)):
                s += "|" + " ".join(fmt_num(t, self.wstyle) for t in self.weight) + "|"
            else:
                s += "|" + fmt_num(self.weight, self.wstyle) + "|"
        return s + "]"

    def prefix_sym(self):
        if self.order == 1:
            return "-" if self.explicit_single else ""
        return ORDER_SYM[self.order]

    def to_json(self):
        w = list(self.weight) if isinstance(self.weight, (tuple, list)) else self.weight
        return {"s": self.symbol, "id": self.id, "w": w, "o": self.order, "ws": self.wstyle, "es": self.explicit_single}

    @staticmethod
    def from_json(d):
        w = d["w"]
        if isinstance(w, list):
            w = tuple(w)
        return BD(d["s"], d["id"], w, d["o"], d.get("ws", "plain"), d.get("es", False))


# --------------------------------------------------------------------------------------------- tokens
# atom alphabet: label -> (valence available for written bonds, heavy?)
ATOMS = {
    "C": 4, "N": 3, "O": 2, "S": 2, "P": 3, "B": 3, "F": 1, "Cl": 1, "Br": 1, "I": 1,
    "[Si]": 4, "[N+]": 4, "[O-]": 1, "[13CH2]": 2, "[SiH]": 3, "[NH+]": 3, "[CH]": 3, "[Ge]": 4,
    "c": 3, "n": 2, "s": 2, "o": 2,
    "[H]": 1, "[2H]": 1,
}
AROMATIC = {"c", "n", "s", "o"}
# aromatic ring motifs: sequence of ring atoms (closure between first and last)
RINGS = {
    "benzene": ["c", "c", "c", "c", "c", "c"],
    "pyridine": ["c", "c", "n", "c", "c", "c"],
    "thiophene": ["c", "c", "s", "c", "c"],
    "furan": ["c", "c", "o", "c", "c"],
    "pyrimidine": ["c", "n", "c", "n", "c", "c"],
    "imidazole": ["n", "c", "c", "n", "c"],  # N-substituted (the motif always hangs off a parent atom)
}


@dataclass
class Node:
    """atom node of the written tree"""
    label: str
    children: list = field(default_factory=list)  # list of (order, Node|BD, paren: bool)
    lead: Optional[BD] = None  # descriptor written *before* this atom (root only)
    rings: list = field(default_factory=list)  # list of (ring_no, order) opened or closed here
    explicit_dash: bool = False  # write '-' to parent
    free: int = 0
    aromatic_link: bool = False  # bond to the parent is the (implicit) aromatic ring bond


@dataclass
class Tok:
    atoms: List[str]
    bonds: List[Tuple[int, int, float]]  # (i, j, order) order 1.5 = aromatic
    atts: List[Tuple[int, BD]]  # descriptors in written order with the atom they bond to
    text_ext: str  # as written (with weights)
    flags: List[str] = field(default_factory=list)

    @property
    def bds(self):
        return [b for _, b in self.atts]

    def to_json(self):
        return {"atoms": self.atoms, "bonds": [list(b) for b in self.bonds],
                "atts": [[a, b.to_json()] for a, b in self.atts], "text": self.text_ext, "flags": self.flags}

    @staticmethod
    def from_json(d):
        return Tok(d["atoms"], [tuple(b) for b in d["bonds"]], [(a, BD.from_json(b)) for a, b in d["atts"]],
                   d["text"], d.get("flags", []))


_ADJ_RE = __import__("re").compile(r"\[[$<>][^\]]*\][^A-Za-z\[]*\[[$<>]")


def print_token(root: Node, ring_style="digit"):
    """Write the tree.  Returns Tok (atoms in written order, bonds, descriptor attachments, text, flags)."""
    atoms, bonds, atts, flags = [], [], [], set()
    ring_open = {}

    def ring_txt(no):
        if no > 9:
            return f"%{no:02d}" if no < 100 else f"%({no})"
        return str(no)

    def w(node, parent_idx, order, is_aromatic_bond, dash):
        s = ""
        if node.lead is not None:
            s += node.lead.text(True) + (ORDER_SYM[node.lead.order] if node.lead.order > 1 else ("-" if node.lead.explicit_single else ""))
            flags.add("leading")
            if node.lead.order > 1:
                flags.add("multi_bond_bd")
            if node.lead.order > 1 or node.lead.explicit_single:
                flags.add("sym_bd")
        idx = len(atoms)
        lead = node.lead
        if parent_idx is not None:
            if order in (2, 3):
                s += ORDER_SYM[order]
            elif dash and not is_aromatic_bond:
                s += "-"
                flags.add("explicit_dash")
        s += node.label
        atoms.append(node.label)
        if lead is not None:
            atts.append((idx, lead))
        if parent_idx is not None:
            bonds.append((parent_idx, idx, 1.5 if is_aromatic_bond else float(order)))
        if node.label.startswith("["):
            flags.add("bracket")
        for (no, ro) in node.rings:
            flags.add("ring")
            if no in ring_open:
                j, aro, ro_open, sym_at_open = ring_open.pop(no)
                order = max(ro, ro_open)
                if order > 1 and not sym_at_open:
                    s += ORDER_SYM[order]  # bond symbol of the ring bond, written in front of the closing digit
                    flags.add("ring_bond_symbol")
                s += ring_txt(no)
                bonds.append((j, idx, 1.5 if (aro and node.label in AROMATIC and order == 1) else float(order)))
            else:
                sym_here = ro > 1 and (no % 2 == 0)
                if sym_here:
                    s += ORDER_SYM[ro]  # ... or in front of the opening digit
                    flags.add("ring_bond_symbol")
                ring_open[no] = (idx, node.label in AROMATIC, ro, sym_here)
                s += ring_txt(no)
        n = len(node.children)
        for k, entry in enumerate(node.children):
            o, ch, paren = entry[0], entry[1], entry[2]
            last = k == n - 1
            use_paren = paren or not last
            prev = node.children[k - 1][1] if k > 0 else None
            if isinstance(ch, BD):
                t = ch.prefix_sym() + ch.text(True)
                if ch.order > 1:
                    flags.add("multi_bond_bd")
                if ch.prefix_sym():
                    flags.add("sym_bd")
                if use_paren:
                    flags.add("bd_branch_alone")
                    if prev is not None and not isinstance(prev, BD):
                        flags.add("bd_after_branch")
                    if not last:
                        flags.add("bd_inner")
                else:
                    flags.add("bd_chain_end")
                    if prev is not None and not isinstance(prev, BD):
                        flags.add("bd_end_after_branch")
                if isinstance(prev, BD):
                    flags.add("bd_adjacent")
                atts.append((idx, ch))
                s += "(" + t + ")" if use_paren else t
            else:
                aro = node.label in AROMATIC and ch.label in AROMATIC and o == 1 and getattr(ch, "aromatic_link", False)
                t = w(ch, idx, o, aro, ch.explicit_dash)
                s += "(" + t + ")" if use_paren else t
        return s

    text = w(root, None, 1, False, False)
    assert not ring_open, "unclosed ring in written tree"
    # textual adjacency: two descriptors with no atom written between them (whatever atoms they belong to)
    flags.discard("bd_adjacent")
    if _ADJ_RE.search(text):
        flags.add("bd_adjacent")
    tok = Tok(atoms, bonds, atts, text, sorted(flags))
    return tok


# ----------------------------------------------------------------------------------- larger structures
@dataclass
class Dist:
    family: str
    params: Tuple[float, ...]
    style: str = "plain"

    def text(self):
        sep = ", " if self.style != "tight" else ","
        st = self.style if self.style in ("plain", "float", "exp", "dotexp", "dotExp", "Eupper", "expsigned") else "plain"
        return f"{self.family}(" + sep.join(fmt_num(p, st) for p in self.params) + ")"

    def to_json(self):
        return {"f": self.family, "p": list(self.params), "st": self.style}

    @staticmethod
    def from_json(d):
        return Dist(d["f"], tuple(d["p"]), d.get("st", "plain"))


@dataclass
class Stoch:
    left: BD
    right: BD
    repeat: List[Tok]
    end: List[Tok]
    dist: Optional[Dist] = None
    ws: Tuple[str, ...] = ("", " ", " ", " ", "")  # after left terminal, after ',', around ';', before right terminal

    @property
    def tokens(self):
        return list(self.repeat) + list(self.end)

    @property
    def bds(self):
        out = []
        for t in self.tokens:
            out += t.bds
        return out

    @property
    def repeat_bds(self):
        return [b for t in self.repeat for b in t.bds]

    @property
    def end_bds(self):
        return [b for t in self.end for b in t.bds]

    def text(self):
        a, c, sc, b = self.ws[0], self.ws[1], self.ws[2], self.ws[3]
        s = "{" + self.left.text(True) + a + ("," + c).join(t.text_ext for t in self.repeat)
        if self.end:
            s += sc + ";" + sc + ("," + c).join(t.text_ext for t in self.end)
        s += b + self.right.text(True) + "}"
        if self.dist is not None:
            s += "|" + self.dist.text() + "|"
        return s

    def to_json(self):
        return {"k": "stoch", "l": self.left.to_json(), "r": self.right.to_json(), "rep": [t.to_json() for t in self.repeat],
                "end": [t.to_json() for t in self.end], "d": None if self.dist is None else self.dist.to_json(), "ws": list(self.ws)}

    @staticmethod
    def from_json(d):
        return Stoch(BD.from_json(d["l"]), BD.from_json(d["r"]), [Tok.from_json(t) for t in d["rep"]],
                     [Tok.from_json(t) for t in d["end"]], None if d["d"] is None else Dist.from_json(d["d"]), tuple(d["ws"]))


@dataclass
class Mol:
    """elements: Tok (prefix / connector / suffix, *as they exist after parsing*, i.e. with their descriptors) or Stoch.

    `written` holds, per element, the text actually written (a connector may be written without descriptors, the
    parser then adds them); the Tok in `elements` is the token the parser must end up with.
    """
    elements: list
    written: List[str]
    mix: Optional[Tuple[str, float]] = None  # ('abs', x) | ('pct', x)
    mix_style: str = "plain"
    arche: str = ""

    def text(self, with_mix=True):
        s = "".join(self.written)
        if with_mix and self.mix is not None:
            s += mix_text(self.mix, self.mix_style)
        return s

    @property
    def tokens(self):
        out = []
        for e in self.elements:
            out += [e] if isinstance(e, Tok) else e.tokens
        return out

    def to_json(self):
        return {"els": [(e.to_json() if isinstance(e, Stoch) else {"k": "tok", **e.to_json()}) for e in self.elements],
                "written": self.written, "mix": list(self.mix) if self.mix else None, "ms": self.mix_style, "arche": self.arche}

    @staticmethod
    def from_json(d):
        els = [Stoch.from_json(e) if e.get("k") == "stoch" else Tok.from_json(e) for e in d["els"]]
        return Mol(els, d["written"], tuple(d["mix"]) if d["mix"] else None, d.get("ms", "plain"), d.get("arche", ""))


def mix_text(mix, style="plain"):
    kind, x = mix
    st = style if style in ("plain", "float", "exp", "nolead", "dotexp", "dotExp", "Eupper", "expsigned") else "plain"
    return ".|" + fmt_num(x, st) + ("%" if kind == "pct" else "") + "|"


@dataclass
class Sys:
    mols: List[Mol]
    external_mass: Optional[float] = None

    def text(self):
        return "".join(m.text(True) for m in self.mols)

    def to_json(self):
        return {"mols": [m.to_json() for m in self.mols], "ext": self.external_mass}

    @staticmethod
    def from_json(d):
        return Sys([Mol.from_json(m) for m in d["mols"]], d.get("ext"))


def dumps(x):
    return json.dumps(x.to_json(), sort_keys=True)
