"""Driving Hypothesis from a shard: generation only (oracle failures are *recorded*, not raised, so that one
shallow defect cannot hide the next), plus an optional shrink pass per failure bucket."""
from hypothesis import HealthCheck, Phase, given, seed as hseed, settings


def drive(strategy, fn, n, seed):
    """call fn(example) for n generated examples; fn must not raise for oracle failures"""
    @settings(max_examples=n, database=None, deadline=None, derandomize=False, report_multiple_bugs=False,
              suppress_health_check=list(HealthCheck), phases=[Phase.generate])
    @hseed(seed)
    @given(strategy)
    def test(x):
        fn(x)

    test()


def shrink(strategy, fails, n, seed):
    """Re-run the same seeded generation, raising on `fails(x)`, with the shrink phase on.
    Returns the minimal failing example or None."""
    box = {"last": None}

    class _Fail(Exception):
        pass

    @settings(max_examples=n, database=None, deadline=None, derandomize=False, report_multiple_bugs=False,
              suppress_health_check=list(HealthCheck), phases=[Phase.generate, Phase.shrink])
    @hseed(seed)
    @given(strategy)
    def test(x):
        if fails(x):
            box["last"] = x
            raise _Fail()

    try:
        test()
    except _Fail:
        pass
    except Exception:  # noqa: BLE001  (flaky / other hypothesis complaints: keep what we have)
        pass
    return box["last"]
