"""Driving Hypothesis from a shard: generation only (oracle failures are *recorded*, not raised, so that one
shallow defect cannot hide the next), plus an optional shrink pass per failure bucket."""
from hypothesis import HealthCheck, Phase, given, seed as hseed, settings


DROPPED = {}  # harness-side exceptions per type (first traceback kept): the case is dropped, the shard goes on
FIRST_TRACEBACK = []


def drive(strategy, fn, n, seed):
    """call fn(example) for n generated examples; fn must not raise for oracle failures.
    An exception that escapes fn is a flaw of the harness (or a guard that fired at an unlucky moment): the case is dropped and
    counted (the runner writes the counts into the evidence as `harness_exception_case_dropped:<type>`); it never becomes a verdict
    and it does not void the rest of the shard."""
    import traceback
    from .probe import NeedChoice, Timeout

    @settings(max_examples=n, database=None, deadline=None, derandomize=False, report_multiple_bugs=False,
              suppress_health_check=list(HealthCheck), phases=[Phase.generate])
    @hseed(seed)
    @given(strategy)
    def test(x):
        try:
            fn(x)
        except NeedChoice:
            raise
        except (Exception, Timeout) as exc:  # noqa: BLE001
            name = type(exc).__name__
            DROPPED[name] = DROPPED.get(name, 0) + 1
            if not FIRST_TRACEBACK:
                FIRST_TRACEBACK.append(traceback.format_exc()[-1500:])

    test()


def shrink(strategy, fails, n, seed):
    """Re-run the same seeded generation, raising on `fails(x)`, with the shrink phase on.
    Returns the minimal failing example or None."""
    box = {"last": None}

    class _Fail(Exception):
        pass

    @settings(max_examples=n, database=None, deadline=None, derandomize=False, report_multiple_bugs=False,
              suppress_health_check=list(HealthCheck), phases=[Phase.generate, Phase.shrink])
    @hseed(seed)
    @given(strategy)
    def test(x):
        if fails(x):
            box["last"] = x
            raise _Fail()

    try:
        test()
    except _Fail:
        pass
    except Exception:  # noqa: BLE001  (flaky / other hypothesis complaints: keep what we have)
        pass
    return box["last"]
