"""Notation strings harvested at run time from the repository's documentation and tests (follows the working tree)."""
import glob
import os
import re

from .env import REPO_ROOT

_STR = re.compile(r"""(?<![A-Za-z0-9_])(?:[rfRF]{0,2})("(?:\\.|[^"\\\n])*"|'(?:\\.|[^'\\\n])*')""")
_MD_CODE = re.compile(r"`([^`\n]+)`")


def harvest():
    files = []
    for pat in ("README.md", "SI.md", "play.py", "tests/*.py"):
        files += sorted(glob.glob(os.path.join(REPO_ROOT, pat)))
    out = {}
    for f in files:
        try:
            txt = open(f, encoding="utf-8", errors="replace").read()
        except OSError:
            continue
        cands = [m.group(1)[1:-1] for m in _STR.finditer(txt)]
        if f.endswith(".md"):
            cands += [m.group(1) for m in _MD_CODE.finditer(txt)]
        for c in cands:
            c = c.replace("\\\\", "\\")
            if len(c) < 3 or len(c) > 1500 or "\n" in c:
                continue
            if not any(k in c for k in ("[$", "[<", "[>", "{[")):
                continue
            if "{" in c and "}" not in c:
                continue
            if re.search(r"\{[A-Za-z_][A-Za-z0-9_]*\}", c):  # f-string placeholder
                continue
            out.setdefault(c.strip(), os.path.relpath(f, REPO_ROOT))
    return out
