#!/usr/bin/env python3
"""usage: tools/install_seed.py <PROP> <X> [ported-patch]  -- copy a verified seeded change into /verif/seeded/<PROP>_<X>/"""
import json, os, shutil, sys
P, X = sys.argv[1], sys.argv[2]
src = os.environ.get("SEEDROOT", "/tmp/seed_out") + f"/{P}"; dst = f"/verif/seeded/{P}_{X}"
os.makedirs(dst, exist_ok=True)
patch = sys.argv[3] if len(sys.argv) > 3 else f"{src}/{X}.diff"
if os.path.abspath(patch) != os.path.abspath(f"{dst}/patch.diff"):
    shutil.copy(patch, f"{dst}/patch.diff")
if len(sys.argv) > 3:
    shutil.copy(f"{src}/{X}.diff", f"{dst}/patch_as_delivered_against_pinned_tree.diff")
shutil.copy(f"{src}/demo_{X}.py", f"{dst}/demo.py")
meta = json.load(open(f"{src}/meta_{X}.json"))
ver = open(f"{src}/verify_{X}.txt").read() if os.path.exists(f"{src}/verify_{X}.txt") else ""
meta["property"] = P
meta["confirmed_by_me"] = {"procedure": "tools/verify_seed.sh: scratch worktree of /repo, demo on the clean tree, git apply, demo again, full pytest suite with the change; worktree removed",
                           "output": ver}
if os.path.exists(f"{dst}/meta.json"):
    old = json.load(open(f"{dst}/meta.json"))
    for k in ("detected_by", "notes"):
        if k in old: meta[k] = old[k]
json.dump(meta, open(f"{dst}/meta.json", "w"), indent=1)
print("installed", dst)
