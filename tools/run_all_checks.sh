#!/bin/bash
# runs every registered quick (or $1) check on the current /repo, one after the other; summary at the end
TIER=${1:-quick}
cd /verif
if ! git -C /repo diff --quiet; then echo "/repo has uncommitted changes - evidence would not describe the committed tree"; exit 2; fi
rc=0
for c in C01 C02 C03 C04 C05 C06 C07 C08 C09 C10 C11 C12 C13 C14 C15 C16 C17 C18 C19 C20; do
  out=$(./check $c --tier $TIER 2>&1 | grep -v "^\[<gbig"); r=$?
  echo "$out" | grep -E "VIOLATION|HARNESS|tier=" | head -4
  [ ${PIPESTATUS[0]} -ne 0 ] && rc=1
done
python3-vt - <<'PY'
import json, jsonschema, glob
sch = json.load(open('/root/.vp/EVIDENCE.schema.json'))
for f in sorted(glob.glob('/verif/evidence/C*.json')):
    try: jsonschema.validate(json.load(open(f)), sch)
    except Exception as e: print("INVALID", f, str(e)[:200])
jsonschema.validate(json.load(open('/verif/MANIFEST.json')), json.load(open('/root/.vp/MANIFEST.schema.json')))
print("evidence + manifest validate")
PY
