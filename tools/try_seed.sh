#!/bin/bash
# usage: tools/try_seed.sh <patch> <PROP> [tier]  -- apply a seeded change to /repo, run the check, undo the change
PATCH=$1; P=$2; TIER=${3:-quick}
cd /repo || exit 2
if ! git diff --quiet; then echo "/repo has uncommitted changes"; exit 2; fi
if ! git apply --check "$PATCH" 2>/dev/null; then echo "PATCH-DOES-NOT-APPLY $PATCH"; exit 3; fi
git apply "$PATCH"
cd /verif; ./check $P --tier $TIER 2>&1 | cut -c1-400 | grep -E "VIOLATION|oracle=|tier=|HARNESS" | head -${LINES_MAX:-8}
git -C /repo checkout -- . ; git -C /repo status --short | grep -v '^??' | head -3
