#!/bin/bash
# usage: tools/process_benign.sh <AREA> <R1|R2>  -- behaviour-preserving refactoring delivered under /tmp/benign/<AREA>/: apply in a scratch
# worktree, run the repository suite and ALL quick checks against it; every VIOLATION here is a false alarm of the machinery.
A=$1; R=$2; SRC=/tmp/benign/$A; WT=/tmp/pb_${A}_$R; OUT=$SRC/result_$R.txt
git -C /repo worktree prune; rm -rf $WT
git -C /repo worktree add -q --detach $WT HEAD || exit 2
cp /repo/src/gbigsmiles/_version.py $WT/src/gbigsmiles/
{
cd $WT; git apply $SRC/$R.diff && echo "patch_applies=yes" || echo "patch_applies=NO"
PYTHONPATH=$WT/src timeout 3000 /venv/bin/python -m pytest -q -p no:cacheprovider --timeout=900 -n 4 tests 2>&1 | tail -2
for c in C01 C02 C03 C04 C05 C06 C07 C08 C09 C10 C11 C12 C13 C14 C15 C16 C17 C18 C19 C20; do
  (cd /verif; VERIF_REPO_SRC=$WT/src VERIF_PROCS=${VERIF_PROCS:-6} ./check $c --tier quick 2>&1 | cut -c1-700 | grep -E "VIOLATION|oracle=|tier=|HARNESS" | head -8)
done
} > $OUT 2>&1
cd /; git -C /repo worktree remove --force $WT
echo "### ${A}_$R"; grep -E "patch_applies|passed|failed|VIOLATION|oracle=|HARNESS" $OUT | cut -c1-400
