#!/usr/bin/env python3
"""Rebuild SEEDS.md from seeded/*/meta.json (no check is run)."""
import json, os
rows = []
for d in sorted(os.listdir("/verif/seeded")):
    p = f"/verif/seeded/{d}/meta.json"
    if not os.path.exists(p):
        continue
    m = json.load(open(p))
    summ = " ".join(str(m.get("summary", "")).split())[:160].replace("|", "/")
    if str(m.get("status", "")).startswith("retired"):
        rows.append((d, summ, "retired", m["status"][9:140])); continue
    det = m.get("detected_by", {})
    demo = m.get("demo_on_current_tree", {})
    dd = f"{demo.get('with_change_exit','?')}/{demo.get('without_change_exit','?')}"
    txt = "; ".join(f"{c}: " + ("**detected** (" + ", ".join(v["oracles"][:3]) + ")" if v["exit"] == 1 else f"not detected (exit {v['exit']})") for c, v in det.items())
    rows.append((d, summ, dd, txt or "not run"))
with open("/verif/SEEDS.md", "w") as fh:
    fh.write("# Seeded changes and the quick checks that detect them\n\n"
             "One row per change kept under `seeded/<id>/` (A/B: first round of sub-agents, C/D: second round, asked for subtler changes).\n"
             "`demo` = exit status of the sub-agent's demonstration on the current tree with / without the change (1/0 = fails with, passes without).\n"
             "Regenerate the results with `tools/run_all_seeds.py` (applies each patch to /repo, runs the checks, reverts) and this table with `tools/seeds_table.py`.\n\n"
             "| id | change | demo | quick checks |\n|---|---|---|---|\n")
    for r in rows:
        fh.write("| " + " | ".join(r) + " |\n")
    n_det = sum(1 for r in rows if "**detected**" in r[3])
    fh.write(f"\n{len(rows)} changes, {n_det} detected by at least one quick check, {sum(1 for r in rows if r[2]=='retired')} retired.\n")
print(len(rows))
