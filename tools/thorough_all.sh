#!/bin/bash
# usage (inside `vp run --with-repo`): tools/thorough_all.sh [ids...]  -- every thorough tier once, against the repo snapshot
if [ -n "$VP_RUN_REPO" ]; then cp /repo/src/gbigsmiles/_version.py $VP_RUN_REPO/src/gbigsmiles/ 2>/dev/null; export VERIF_REPO_SRC=$VP_RUN_REPO/src; fi
./setup.sh >/dev/null 2>&1
IDS=${@:-C03 C12 C16 C17 C18 C20 C01 C02 C15 C10 C13 C19 C14 C11 C09 C08 C04 C05 C06 C07}
for c in $IDS; do
  ./check $c --tier thorough 2>&1 | grep -v "^\[<gbig" | grep -E "VIOLATION|oracle=|HARNESS|tier=" | cut -c1-400
done
