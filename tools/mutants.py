#!/usr/bin/env python3
"""Sensitivity runs: apply hand-written mutants to a scratch copy of /repo/src and run checks against it.
usage: tools/mutants.py [name-substring ...]      results appended to /verif/SENSITIVITY.jsonl
"""
import json, os, shutil, subprocess, sys, time
M = [
 # name, file, old, new, checks expected to fail
 ("attach_single_bond", "mol_gen.py", "self.bond_descriptors[self_bond_idx].bond_type,\n        )\n        self.graph = nx", "Chem.BondType.SINGLE,\n        )\n        self.graph = nx", ["C04", "C05"]),
 ("attach_no_compat_check", "mol_gen.py", "if not other_bond_descriptors[other_bond_idx].is_compatible(", "if False and not other_bond_descriptors[other_bond_idx].is_compatible(", []),
 ("reacted_descriptor_kept", "mol_gen.py", "        del self.bond_descriptors[self_bond_idx]\n", "        pass\n", ["C04", "C06"]),
 ("stop_rule_no_start_mass", "stochastic.py", "rdDescriptors.HeavyAtomMolWt(my_mol.mol) - starting_mol_weight", "rdDescriptors.HeavyAtomMolWt(my_mol.mol)", ["C07"]),
 ("stop_rule_ge", "stochastic.py", "                    > target_mol_weight\n", "                    >= target_mol_weight - 14.0\n", ["C07"]),
 ("stop_rule_finalized_mass", "stochastic.py", "rdDescriptors.HeavyAtomMolWt(my_mol.mol) - starting_mol_weight\n", "rdDescriptors.HeavyAtomMolWt(finalized_my_mol.mol) - starting_mol_weight\n", ["C07"]),
 ("terminal_not_reinserted", "stochastic.py", "            if terminal_bond:\n                my_mol.bond_descriptors.append(terminal_bond)", "            if terminal_bond and len(my_mol.bond_descriptors) > 99:\n                my_mol.bond_descriptors.append(terminal_bond)", ["C06"]),
 ("weights_ignored", "core.py", "    weights /= np.sum(weights)\n", "    weights = np.ones(len(weights)) / max(1, len(weights))\n", ["C08"]),
 ("equal_rule_always", "core.py", "if len(compatible_idx) > 0 and np.all(weights == weights[0]):", "if len(compatible_idx) > 0:", ["C08"]),
 ("left_terminal_weight_dropped", "stochastic.py", "                prefix.bond_descriptors[0].transitions = self.left_terminal.transitions\n", "", ["C08"]),
 ("cap_from_repeat_units", "stochastic.py", "connecting_bond_idx = choose_compatible_weight(self.end_bonds, starting_bond, rng)\n\n                token = self.end_tokens[self.end_bond_token_idx[connecting_bond_idx]]\n                connecting_bond = self.end_bonds[connecting_bond_idx]", "connecting_bond_idx = choose_compatible_weight(self.repeat_bonds, starting_bond, rng)\n\n                token = self.repeat_tokens[self.repeat_bond_token_idx[connecting_bond_idx]]\n                connecting_bond = self.repeat_bonds[connecting_bond_idx]", ["C06", "C07"]),
 ("weight_of_sanitized_h", "mol_gen.py", "return rdDescriptors.HeavyAtomMolWt(self._mol)", "return rdDescriptors.MolWt(self.mol)", ["C05"]),
 ("sz_mw_mn_swapped", "distribution.py", "self._Mw, self._Mn = make_tuple(self._raw_text[len(\"schulz_zimm\") :])", "self._Mn, self._Mw = make_tuple(self._raw_text[len(\"schulz_zimm\") :])\n        self._Mn, self._Mw = min(self._Mn, self._Mw) * 1.0, max(self._Mn, self._Mw) * 1.0\n        self._z0 = 1", ["C09", "C11"]),
 ("gauss_sigma_is_variance", "distribution.py", "self._distribution = stats.norm(loc=self._mu, scale=self._sigma)", "self._distribution = stats.norm(loc=self._mu, scale=np.sqrt(self._sigma))", ["C09", "C11"]),
 ("uniform_scale_is_high", "distribution.py", "stats.uniform(loc=self._low, scale=(self._high - self._low))", "stats.uniform(loc=self._low, scale=self._high)", ["C09", "C11"]),
 ("lognormal_mean_shift", "distribution.py", "(np.log(m / M) + np.log(D) / 2) ** 2", "(np.log(m / M) - np.log(D) / 2) ** 2", ["C09", "C11"]),
 ("draw_hoisted_one_target_per_molecule", "stochastic.py", "            target_mol_weight = self.distribution.draw_mw(rng)\n", "            target_mol_weight = _shared_target(self, rng)\n", ["C09"]),
 ("deepcopy_shallow", "mol_gen.py", "self.bond_descriptors = copy.deepcopy(token.bond_descriptors)", "self.bond_descriptors = list(token.bond_descriptors)", ["C10"]),
]

def main():
    sel = sys.argv[1:]
    out = open("/verif/SENSITIVITY.jsonl", "a")
    for name, fn, old, new, checks in M:
        if sel and not any(s in name for s in sel):
            continue
        d = f"/tmp/gbsv_mut_{name}"
        shutil.rmtree(d, ignore_errors=True)
        shutil.copytree("/repo/src", d)
        p = os.path.join(d, "gbigsmiles", fn)
        s = open(p).read()
        if old not in s:
            print(name, "PATTERN-NOT-FOUND"); shutil.rmtree(d); continue
        open(p, "w").write(s.replace(old, new, 1))
        res = {}
        for c in (checks or ["C04"]):
            if not os.path.exists(f"/verif/gbsv/checks/{c.lower()}.py"):
                res[c] = "no-check"; continue
            t0 = time.time()
            r = subprocess.run(["./check", c, "--tier", "quick"], cwd="/verif", env={**os.environ, "VERIF_REPO_SRC": d}, capture_output=True, text=True)
            oracles = sorted({l.split("oracle=")[1].split(" ")[0] for l in r.stdout.splitlines() if "oracle=" in l})
            res[c] = {"rc": r.returncode, "oracles": oracles, "s": round(time.time() - t0)}
        print(name, json.dumps(res))
        out.write(json.dumps({"mutant": name, "file": fn, "results": res, "at": time.strftime("%F %T")}) + "\n"); out.flush()
        shutil.rmtree(d, ignore_errors=True)

main()
