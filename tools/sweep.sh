#!/bin/bash
# usage (inside `vp run --with-repo`): tools/sweep.sh "<seeds>" [tier]   -- all checks at several seeds against the repo snapshot
SEEDS=${1:-"2 3 4"}; TIER=${2:-quick}
if [ -n "$VP_RUN_REPO" ]; then cp /repo/src/gbigsmiles/_version.py $VP_RUN_REPO/src/gbigsmiles/ 2>/dev/null; export VERIF_REPO_SRC=$VP_RUN_REPO/src; fi
./setup.sh >/dev/null 2>&1
for s in $SEEDS; do for c in C01 C02 C03 C04 C05 C06 C07 C08 C09 C10 C11 C12 C13 C14 C15 C16 C17 C18 C19 C20; do
  VERIF_SEED=$s ./check $c --tier $TIER 2>&1 | grep -v "^\[<gbig" | grep -E "VIOLATION|oracle=|HARNESS|tier=" | cut -c1-300 | sed "s/^/[seed $s] /"
done; done
