#!/bin/bash
# usage: tools/verify_seed.sh <PROP> <X>   -- confirms a seeded change produced by a sub-agent:
#   demo passes on the pinned tree, fails with the change; repository test suite still passes with the change.
# Works in a scratch worktree of /repo at the pinned commit, removed afterwards. Result: /tmp/seed_out/<PROP>/verify_<X>.txt
P=$1; X=$2; BASE=${3:-4f71e86}
SRC=${SEEDROOT:-/tmp/seed_out}/$P; WT=/tmp/vs_${P}_$X; OUT=$SRC/verify_$X.txt
rm -rf $WT; git -C /repo worktree prune
git -C /repo worktree add -q --detach $WT $BASE || exit 2
cp /repo/src/gbigsmiles/_version.py $WT/src/gbigsmiles/
{
echo "== base $BASE"
cd $WT
PYTHONPATH=$WT/src timeout 900 /venv/bin/python $SRC/demo_$X.py >/dev/null 2>&1; echo "demo_on_clean_exit=$?"
git apply $SRC/$X.diff && echo "patch_applies=yes" || echo "patch_applies=NO"
PYTHONPATH=$WT/src timeout 900 /venv/bin/python $SRC/demo_$X.py >/dev/null 2>&1; echo "demo_with_change_exit=$?"
PYTHONPATH=$WT/src timeout 3000 /venv/bin/python -m pytest -q -p no:cacheprovider --timeout=900 -n 6 tests 2>&1 | tail -4
} > $OUT 2>&1
cd /; git -C /repo worktree remove --force $WT
cat $OUT
