#!/usr/bin/env python3
"""Like run_all_seeds.py, but every seeded change is applied in its own scratch worktree of /repo HEAD (checks see it through
VERIF_REPO_SRC), several changes in parallel; /repo itself is not touched.  Results go to seeded/<id>/meta.json; SEEDS.md is
rebuilt by tools/seeds_table.py.
usage: tools/run_all_seeds_wt.py [-j N] [id-substring ...]"""
import json, os, subprocess, sys, time
from concurrent.futures import ThreadPoolExecutor
EXTRA = {"C09_A": ["C11"], "C09_B": ["C13"], "C14_A": ["C12"], "C12_A": [], "C03_F": ["C04"], "C04_F": ["C02"], "C06_F": ["C10"],
         "C09_E": ["C07"], "C14_E": ["C13"], "C16_F": ["C10", "C17"], "C01_F": ["C10"], "C02_E": ["C12"], "C09_F": ["C11"], "C10_E": ["C16"],
         "C05_G": ["C02"], "C06_G": ["C08"], "C06_H": ["C08"], "C04_H": ["C03"], "C19_G": ["C11"]}
RETIRED = {"C02_B": "after fix 7a23358 (a bond symbol in front of a ring-closure digit is stripped before the bond characters are read) the ring digits no longer reach the lookup the change introduced: its demo passes with the change applied",
           "C12_A": "after fix 2328a75 (system mass is propagated before the bookkeeping) the change no longer breaks the property: its demo passes with the change applied"}
args = sys.argv[1:]
J = 3
if args and args[0] == "-j":
    J = int(args[1]); args = args[2:]
sel = args
PROCS = str(max(2, 16 // J))


def one(d):
    path = f"/verif/seeded/{d}"
    meta = json.load(open(f"{path}/meta.json"))
    prop = d.split("_")[0]
    if d in RETIRED:
        meta["status"] = "retired: " + RETIRED[d]
        json.dump(meta, open(f"{path}/meta.json", "w"), indent=1)
        return d, "retired"
    wt = f"/tmp/ras_{d}"
    subprocess.run(["git", "-C", "/repo", "worktree", "remove", "--force", wt], capture_output=True)
    if subprocess.run(["git", "-C", "/repo", "worktree", "add", "-q", "--detach", wt, "HEAD"], capture_output=True).returncode != 0:
        return d, "worktree failed"
    try:
        subprocess.run(["cp", "/repo/src/gbigsmiles/_version.py", f"{wt}/src/gbigsmiles/"])
        env = {**os.environ, "PYTHONPATH": f"{wt}/src"}
        demo_clean = subprocess.run(["/venv/bin/python", f"{path}/demo.py"], env=env, capture_output=True, timeout=1800).returncode
        if subprocess.run(["git", "-C", wt, "apply", f"{path}/patch.diff"], capture_output=True).returncode != 0:
            meta["detected_by"] = {}
            meta["status"] = "PATCH DOES NOT APPLY on the current tree"
            json.dump(meta, open(f"{path}/meta.json", "w"), indent=1)
            return d, "PATCH DOES NOT APPLY"
        demo = subprocess.run(["/venv/bin/python", f"{path}/demo.py"], env=env, capture_output=True, timeout=1800).returncode
        res = {}
        for c in [prop] + EXTRA.get(d, []):
            t0 = time.time()
            r = subprocess.run(["./check", c, "--tier", "quick"], cwd="/verif", capture_output=True, text=True,
                               env={**os.environ, "VERIF_REPO_SRC": f"{wt}/src", "VERIF_PROCS": PROCS})
            oracles = sorted({l.split("oracle=")[1].split(" ")[0] for l in r.stdout.splitlines() if "oracle=" in l})
            res[c] = {"exit": r.returncode, "oracles": oracles, "seconds": round(time.time() - t0)}
        meta.pop("status", None)
        meta["detected_by"] = res
        meta["demo_on_current_tree"] = {"with_change_exit": demo, "without_change_exit": demo_clean}
        meta["ran"] = ("tools/run_all_seeds_wt.py: scratch worktree of /repo HEAD " + subprocess.run(["git", "-C", "/repo", "rev-parse", "--short", "HEAD"], capture_output=True, text=True).stdout.strip()
                       + "; demo.py without the change; git apply patch.diff; demo.py; VERIF_REPO_SRC=<worktree>/src ./check <ID> --tier quick; worktree removed  (" + time.strftime("%F %T") + ")")
        json.dump(meta, open(f"{path}/meta.json", "w"), indent=1)
        return d, ", ".join(f"{c}: {'DETECTED ' + '/'.join(v['oracles'][:3]) if v['exit'] == 1 else ('exit ' + str(v['exit']))}" for c, v in res.items()) + f" demo {demo}/{demo_clean}"
    finally:
        subprocess.run(["git", "-C", "/repo", "worktree", "remove", "--force", wt], capture_output=True)


todo = [d for d in sorted(os.listdir("/verif/seeded")) if not sel or any(s in d for s in sel)]
with ThreadPoolExecutor(J) as ex:
    for d, msg in ex.map(one, todo):
        print(d, msg, flush=True)
subprocess.run(["python3", "/verif/tools/seeds_table.py"])
