#!/bin/bash
# usage: tools/try_wt.sh <patch> <check id> [more ids]  -- apply a patch in a scratch worktree of /repo HEAD, run quick checks against it, remove it
PATCH=$(realpath $1); shift
WT=/tmp/tw_$$; git -C /repo worktree prune
git -C /repo worktree add -q --detach $WT HEAD || exit 2
cp /repo/src/gbigsmiles/_version.py $WT/src/gbigsmiles/
(cd $WT && git apply $PATCH) || { echo PATCH-DOES-NOT-APPLY; git -C /repo worktree remove --force $WT; exit 3; }
for c in "$@"; do
  (cd /verif; VERIF_REPO_SRC=$WT/src VERIF_PROCS=${VERIF_PROCS:-8} ./check $c --tier ${TIER:-quick} 2>&1 | cut -c1-${WIDTH:-300} | grep -E "VIOLATION|oracle=|tier=|HARNESS" | head -${LINES_MAX:-8})
done
git -C /repo worktree remove --force $WT
