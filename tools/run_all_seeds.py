#!/usr/bin/env python3
"""Run every seeded change against the checks that should see it; record the outcome in seeded/<id>/meta.json and SEEDS.md.
usage: tools/run_all_seeds.py [id-substring ...]"""
import json, os, subprocess, sys, time
EXTRA = {"C09_A": ["C11"], "C09_B": ["C13"], "C14_A": ["C12"], "C12_A": []}
RETIRED = {"C02_B": "after fix 7a23358 (a bond symbol in front of a ring-closure digit is stripped before the bond characters are read) the ring digits no longer reach the lookup the change introduced: its demo passes with the change applied",
           "C12_A": "after fix 2328a75 (system mass is propagated before the bookkeeping) the change no longer breaks the property: its demo passes with the change applied"}
sel = sys.argv[1:]
rows = []
for d in sorted(os.listdir("/verif/seeded")):
    if sel and not any(s in d for s in sel):
        continue
    path = f"/verif/seeded/{d}"
    meta = json.load(open(f"{path}/meta.json"))
    prop = d.split("_")[0]
    if d in RETIRED:
        meta["status"] = "retired: " + RETIRED[d]
        json.dump(meta, open(f"{path}/meta.json", "w"), indent=1)
        rows.append((d, meta.get("summary", "")[:110], "retired", "-"))
        continue
    if subprocess.run(["git", "-C", "/repo", "diff", "--quiet"]).returncode != 0:
        print("repo dirty"); sys.exit(2)
    if subprocess.run(["git", "-C", "/repo", "apply", "--check", f"{path}/patch.diff"]).returncode != 0:
        rows.append((d, meta.get("summary", "")[:110], "PATCH DOES NOT APPLY", "-")); continue
    subprocess.run(["git", "-C", "/repo", "apply", f"{path}/patch.diff"], check=True)
    try:
        demo = subprocess.run(["/venv/bin/python", f"{path}/demo.py"], env={**os.environ, "PYTHONPATH": "/repo/src"}, capture_output=True, timeout=1800).returncode
        res = {}
        for c in [prop] + EXTRA.get(d, []):
            t0 = time.time()
            r = subprocess.run(["./check", c, "--tier", "quick"], cwd="/verif", capture_output=True, text=True)
            oracles = sorted({l.split("oracle=")[1].split(" ")[0] for l in r.stdout.splitlines() if "oracle=" in l})
            res[c] = {"exit": r.returncode, "oracles": oracles, "seconds": round(time.time() - t0)}
    finally:
        subprocess.run(["git", "-C", "/repo", "checkout", "--", "."], check=True)
    demo_clean = subprocess.run(["/venv/bin/python", f"{path}/demo.py"], env={**os.environ, "PYTHONPATH": "/repo/src"}, capture_output=True, timeout=1800).returncode
    meta["detected_by"] = res
    meta["demo_on_current_tree"] = {"with_change_exit": demo, "without_change_exit": demo_clean}
    meta["ran"] = "tools/run_all_seeds.py: git -C /repo apply patch.diff; demo.py; ./check <ID> --tier quick; git -C /repo checkout -- .  (" + time.strftime("%F %T") + ")"
    json.dump(meta, open(f"{path}/meta.json", "w"), indent=1)
    det = ", ".join(f"{c}: {'DETECTED ' + '/'.join(v['oracles'][:3]) if v['exit'] == 1 else ('exit ' + str(v['exit']))}" for c, v in res.items())
    rows.append((d, meta.get("summary", "")[:110].replace("|", "/"), f"demo {demo}/{demo_clean}", det))
    print(d, det, flush=True)
with open("/verif/SEEDS.md", "w") as fh:
    fh.write("# Seeded changes and which quick check detects them\n\n(demo a/b = exit status of the sub-agent's demonstration with / without the change on the current tree)\n\n| id | change | demo | quick checks |\n|---|---|---|---|\n")
    for r in rows:
        fh.write("| " + " | ".join(r) + " |\n")
