#!/bin/bash
# usage: tools/process_seed.sh <PROP> <X> [SEEDROOT]  -- verify a delivered seeded change, then run the property's quick check against it
P=$1; X=$2; export SEEDROOT=${3:-/tmp/seed_out3}
BASE=$(git -C /repo rev-parse --short HEAD)
/verif/tools/verify_seed.sh $P $X $BASE > /dev/null 2>&1
cat $SEEDROOT/$P/verify_$X.txt | grep -E "demo_|patch_applies|passed|failed"
