#!/bin/bash
# usage: tools/process_seed.sh <PROP> <X> [extra check ids...]   (SEEDROOT default /tmp/seed_out3)
# Confirms a delivered seeded change in a scratch worktree (demo passes without, fails with; repository suite passes with the change),
# then runs the quick check(s) against that worktree (VERIF_REPO_SRC), and removes the worktree. /repo itself is not touched.
P=$1; X=$2; shift 2; EXTRA="$@"
export SEEDROOT=${SEEDROOT:-/tmp/seed_out3}
SRC=$SEEDROOT/$P; WT=/tmp/ps_${P}_$X; OUT=$SRC/verify_$X.txt; RES=$SRC/result_$X.txt
BASE=$(git -C /repo rev-parse --short HEAD)
rm -rf $WT; git -C /repo worktree prune
git -C /repo worktree add -q --detach $WT $BASE || exit 2
cp /repo/src/gbigsmiles/_version.py $WT/src/gbigsmiles/
{
echo "== base $BASE"
cd $WT
PYTHONPATH=$WT/src timeout 900 /venv/bin/python $SRC/demo_$X.py >/dev/null 2>&1; echo "demo_on_clean_exit=$?"
git apply $SRC/$X.diff && echo "patch_applies=yes" || echo "patch_applies=NO"
PYTHONPATH=$WT/src timeout 900 /venv/bin/python $SRC/demo_$X.py >/dev/null 2>&1; echo "demo_with_change_exit=$?"
PYTHONPATH=$WT/src timeout 3000 /venv/bin/python -m pytest -q -p no:cacheprovider --timeout=900 -n 4 tests 2>&1 | tail -4
} > $OUT 2>&1
: > $RES
for c in $P $EXTRA; do
  echo "--- check $c against ${P}_$X" >> $RES
  (cd /verif; VERIF_REPO_SRC=$WT/src VERIF_PROCS=${VERIF_PROCS:-8} ./check $c --tier quick 2>&1 | cut -c1-500 | grep -E "VIOLATION|oracle=|tier=|HARNESS" | head -12) >> $RES
done
cd /; git -C /repo worktree remove --force $WT
echo "### ${P}_$X"; grep -E "demo_|patch_applies|passed|failed" $OUT | tr '\n' ' '; echo; cat $RES
