#!/usr/bin/env python3
"""Regenerates MANIFEST.json from the table below (kept valid at all times)."""
import json, os
HERE = os.path.dirname(os.path.abspath(__file__))
props = [json.loads(l) for l in open(os.path.join(HERE, "properties.jsonl"))]

# id -> (technique, level text, level note, design ref)
CLAIMED = {
 "C01": ("round-trip + metamorphic relations over printed reference ASTs and the harvested docs/tests corpus (Hypothesis)",
         "Generated-input search: every string printed from a generated AST at five levels (descriptor, token, stochastic object, molecule, system; whitespace and number-format variants) and every docs/tests string the parser accepts is printed, re-parsed and printed again; fixed point, attribute-wise equality of P(s) and P(str(P(s))), equal generability, equal molecules under equal seeds (well-posed instances), and 'no-extension string == canonical string with |...| erased, no bar, all tokens and descriptors kept, re-parsable for a single molecule' are checked. Sampling, not exhaustive.",
         "Trusted: the independent printer of gbsv/ast.py (valid strings by construction, cross-checked against RDKit's dummy-atom reading), public attributes as the notion of 'same object', RDKit canonical SMILES for 'same molecule'.", "DESIGN.md §2 C01"),
 "C02": ("reference model by construction: generated ASTs printed by an independent printer, parse compared field by field (Hypothesis)",
         "Generated-input search against a reference model: the AST is ground truth because the string is produced from it with a descriptor written exactly like a leaf atom; for every token the parsed descriptors (symbol, id, weight, list, attachment atom, bond order, numbering) and the atoms/internal bonds of the public SMILES fragment are compared with the AST, for objects the terminals, token lists, distribution family/parameters, for molecules/systems element kinds, order and mixture. Every legal descriptor placement is generated and its frequency reported. Sampling, not exhaustive.",
         "Trusted: gbsv/ast.py printer (itself validated against RDKit by replacing descriptors with dummy atoms), RDKit SMILES parser for the fragment.", "DESIGN.md §2 C02"),
 "C04": ("invariant over generated structures: residue decomposition of generated molecules (random seeds + all scripted choice sequences of bounded instances) with a descriptor-assignment search against the reference compatibility rule",
         "Generated-input search: well-posed molecules of every archetype (incl. double/triple-bond descriptors, ids, lists, connectors) are generated under seeded generators, forced and sampled targets, and - for bounded instances - under every sequence of random choices (scripted numpy Generator, depth first). The result is decomposed into residue instances verified atom by atom against reference fragments; every bond between residues must be assignable, injectively per residue, to one descriptor at each end such that the two are compatible by the reference rule and prescribe the bond's order.",
         "Trusted: reference fragments built from the AST, RDKit, the tag the harness puts on MolGen.graph nodes (verified afterwards).", "DESIGN.md §2 C04"),
 "C05": ("reference reconstruction: generated molecule vs residues re-assembled from the written tokens (canonical SMILES, atom-wise comparison, tree shape, mass sum)",
         "Same generated runs as C04. Oracles: residues partition the atoms; each equals its token in elements, charges, isotopes and internal bonds; residues form a tree equal to MolGen.graph; the molecule sanitises; re-assembling reference fragments with the observed inter-residue bonds gives the same canonical SMILES (pins hydrogen counts of non-bracket atoms); weight equals the sum of residue heavy-atom masses.",
         "Trusted: RDKit sanitisation and canonical SMILES on both sides; reference fragments from the AST.", "DESIGN.md §2 C05"),
 "C06": ("invariant over generated structures of well-posed molecules (closability analysis) incl. every scripted choice sequence of bounded instances",
         "Same generated runs. Oracles: generation of a well-posed closed molecule returns (no exception), is fully generated, every descriptor of every residue formed exactly one bond, residues are created in written element order, every prefix/connector/suffix exactly once, every stochastic object at least one repeat unit, consecutive elements joined by exactly one bond through descriptors matching the terminals, non-adjacent elements never bonded, end groups are leaves. Termination is bounded liveness (wall-clock guard only as inconclusive outer limit).",
         "Trusted: the closability analysis of gbsv/reflaw.py decides which molecules are well-posed (its reject rate is reported).", "DESIGN.md §2 C06"),
 "C07": ("stopping-rule arithmetic on residue masses under forced targets (k units +- 1e-7 / half unit / below one unit / negative) and tapped real draws",
         "Same generated runs. For every stochastic object the residues it created are split into growth and capping residues and the reference masses must satisfy: no strict prefix of the growth exceeds the target, the full growth does (or no descriptor was left), at least one unit, prefix/earlier elements/caps not counted, exactly one draw per object. Ties within 1e-9 are skipped.",
         "Trusted: reference heavy-atom masses from the AST; the tap on draw_mw (class level, public method).", "DESIGN.md §2 C07"),
 "C08": ("exhaustive enumeration of all random-choice sequences (scripted generator) of bounded instances vs an exact reference outcome law; probability vectors checked at the generator interface",
         "For bounded instances of every archetype the scripted generator enumerates every choice sequence of the real generator; the probability of each producible molecule (sum over paths of the product of the probabilities handed to rng.choice) must equal, within 1e-9, the value computed from the notation by an independent enumerator; supports must be equal, the total must be 1, and every vector handed to rng.choice must be a probability vector. Exhaustive per instance (when the path cap is not hit), sampling over instances.",
         "Trusted: the reference law of gbsv/reflaw.py (DESIGN.md §0), RDKit canonical SMILES as molecule identity.", "DESIGN.md §2 C08"),
 "C09": ("statistical property test: histogram of block sizes from seeded generations (single molecules and pooled small ensembles) against closed-form reference laws; exact binomial per bin + 8-sigma mean, re-confirmed; independence of blocks",
         "Generated cases (family, parameters with the documented order and meaning, repeat-unit mass, 1-2 blocks, two generation routes); per case N generations, block sizes read from residue tags; the probability of stopping after n units must equal the reference law's mass between the cumulative masses (integer laws with the ceil(c)-1 convention; Schulz-Zimm as the documented density on the integers); two blocks must be independent and one target is drawn per object. Decided by finite samples with alpha 1e-10 (Bonferroni) and confirmation on rejection - a goodness-of-fit test never proves equality; the minimal detectable shift shrinks with the thorough tier's sample size.",
         "Trusted: scipy closed-form laws, residue tags, stated tolerance 2/Mn for the Schulz-Zimm normalisation.", "DESIGN.md §2 C09"),
 "C10": ("stateful / model-based testing (Hypothesis RuleBasedStateMachine) with a differential oracle against a pristine forked baseline and immutability invariants",
         "Generated operation histories over several strings and several parsed instances per string (parse again, seeded generation, generation with / reseeding / advancing the global generator, printing, queries, reaction graph, atom graph, mirror); every seeded generation must equal the answer of a fork of a template process that imported the library and did nothing else; after every step every live object prints and reports generable exactly as at parse time; an explicit generator leaves the global one untouched.",
         "Trusted: fork gives a history-free baseline; molecule identity = canonical SMILES + weight.", "DESIGN.md §2 C10"),
 "C11": ("generated parameter points per family against closed-form reference laws: normalisation, interval coherence (own point probabilities and reference CDF), exact-binomial goodness of fit of draws with re-confirmation, text round-trip, negative list of unknown names",
         "Parameter points from a grid and Hypothesis inside the documented region; per point the object's point probabilities must be non-negative and normalised, 12 generated intervals must equal both the sum/integral of its own point probabilities and the reference F(b)-F(a), N draws must be finite, in the support, follow the reference law (binned exact binomial, alpha 1e-10 Bonferroni, re-confirmed with an independent seed) and have the documented mean; printing and re-reading keeps parameters; 17 unknown or look-alike names must be rejected. Statistical, never a proof of equality.",
         "Trusted: scipy closed-form laws chosen from the documentation; stated tolerances for the integer-sampled Schulz-Zimm density.", "DESIGN.md §2 C11"),
 "C12": ("generated specifier configurations against a reference linear-system solver (determined / under-determined / contradictory), plus print-reparse round trip",
         "Configurations of 1-5 components with specifier kinds {absolute, percent, missing last} and optional caller-supplied system mass are generated from a consistent ground truth (exact number spellings) or perturbed into contradiction; a reference solver classifies them. Determined: must be generable with the reference system mass, every component with percentage and mass, sum 100, absolute = percentage of the system mass, written values kept, and str() re-parses with the same masses. Under-determined: generable False without exception. Contradictory: never generable.",
         "Trusted: gbsv/refmix.py; tolerance 1e-6 relative; degenerate 0 % remainders are outside the domain.", "DESIGN.md §2 C12"),
 "C13": ("sequence invariant over generated ensembles (seeded explicit and global generators) with residue-level membership verification; refusal of non-generable variants",
         "Generated systems of 1-4 well-posed components with consistent mixture specifications are iterated; every yielded molecule must be fully generated and a complete instance of exactly one declared component (residue decomposition verified against that component's tokens), the running mass must satisfy s_(k-1) < S <= s_k at the stop and the iterator must stay exhausted; all-percent systems, components without distribution or with negative weights must refuse next() and generate(); generate() on a generable system returns one complete member.",
         "Trusted: residue tags verified against reference fragments; System.generator driven through the property getter.", "DESIGN.md §2 C13"),
 "C14": ("generated mixtures of fixed-mass molecules: variance-free interface oracle (probabilities recorded at rng.choice) and statistical outcome oracle (8 sigma of the ideal scheme + overshoot, re-confirmed)",
         "Systems of 2-4 molecules with heavy-atom masses 12-786 (ratios up to 65) and written mass fractions >= 2 % are generated to 800-2400 molecules; if the selection probabilities at the generator interface are stationary the mass share they imply must equal the written fraction exactly; the generated mass share of every component must lie within 8 sigma (ideal independent picks) plus the stop-rule overshoot of the written fraction, confirmed with a second seed. Convergence is sampled, never proved.",
         "Trusted: written fractions as ground truth; RDKit heavy-atom masses.", "DESIGN.md §2 C14"),
 "C16": ("reference model, edge by edge: generated molecules, every descriptor node's reaction / termination / transition probabilities against the reference selection law; normalisation at every node",
         "For generated molecules of every archetype (lists incl. onto end groups, ids, weighted and listed left terminals, weighted explicit connectors, mixed bond orders) the reaction graph must have one node per token and descriptor, and for every descriptor node each of prob / term_prob / trans_prob must be absent or sum to 1 and equal, target by target, the probability the reference law (validated against the real generator in C08) gives; p>0 edges join compatible descriptors only; atom edges carry the attachment atom.",
         "Trusted: reference law of gbsv/reflaw.py; node mapping through Molecule.residues.", "DESIGN.md §2 C16"),
 "C17": ("independently built expected multigraph from the AST compared with the stochastic atom graph (nodes, static / stochastic / termination / transition edge multisets)",
         "For generated molecules of every archetype, with Schulz-Zimm distributions (default call) and other families (expect_schulz_zimm_distribution=False), an expected multigraph is built from the AST: one node per atom with element, charge, aromaticity; static edges in both directions with bond order; stochastic edges with the partner's or the listed weight; termination edges repeat unit -> end group; transition edges between consecutive elements respecting the terminals; nothing leaves an end group. Edge multisets must be equal - no edge missing, none surplus.",
         "Trusted: reference fragments and compatibility rule; all-zero edges ignored on both sides.", "DESIGN.md §2 C17"),
 "C18": ("invariant over generated structures: residue partition of atom-graph generations (creation-order hint verified, constraint search fallback) against the stochastic atom graph; determinism under equal seeds",
         "Schulz-Zimm molecules of every archetype are generated through AtomGraph with seeded generators; every generated atom names its stochastic node; the atoms must partition into whole token copies with all atoms and internal bonds, every bond between copies must correspond to a non-static edge of the stochastic atom graph between those nodes with the same bond order, copies form a tree, the graph is connected, to_mol() sanitises, at most 200000 random choices are made, and two generations with equal seeds give equal molecules.",
         "Trusted: 'stochastic_node' node attribute (public), reference fragments, RDKit sanitisation.", "DESIGN.md §2 C18"),
 "C19": ("generated linear directed chains queried against a closed-form reference law, with metamorphic checks (atom renumbering, sum over lengths, foreign molecules)",
         "Molecules of 1-2 blocks of one directed repeat unit (generated chemistry incl. symmetric and locally symmetric tokens), prefix or end-group start, suffix or end-group end, six families; for every chain length up to a reference tail of 1e-9 the reported ensemble probability must equal the product of the closed-form window probabilities, must be the same for RDKit's canonical and two random atom orders, the values must sum to 1, and foreign molecules (changed atom, a block without repeat unit) must get 0. Two recorded defects of get_ensemble_prob are reported as KNOWN-FINDING by structural signature.",
         "Trusted: gbsv/refdist.py closed forms; reference molecules assembled from the AST; P(T<0) negligible by construction.", "DESIGN.md §2 C19"),
 "C20": ("generated typing histories with totality / element-mass oracles, a renumbering metamorphic relation and a differential oracle against a pristine forked baseline",
         "Histories of 3-7 typing calls over generated molecules (force-field chemistry, untypable ones, partially generated ones with open descriptors of weight 0/1/2) using default files, explicit copies of the bundled files, the forcefield_types property, or a randomly renumbered copy; a successful typing must give exactly one parameter set per atom of the H-added molecule with the element's mass, a failure must be FfAssignmentError carrying partial assignment and molecule, partial molecules must be refused with RuntimeError, renumbered copies must get the same parameters atom by atom, and every result must equal the pristine fork's default typing.",
         "Trusted: RDKit periodic table; fork baseline; repr of the parameter dataclass.", "DESIGN.md §2 C20"),
 "C15": ("breaking operators on generated valid instances with a must-be-rejected oracle (Hypothesis) + byte-level mutation and coverage-guided fuzzing (atheris/libFuzzer) under a deterministic step budget",
         "Generated-input search: 17 breaking operators, each producing an invalid string by construction, are applied at generated positions to valid well-posed molecules of every archetype; the broken string must end in an error at parse or at generate (non-generable for negative weights / missing distribution) - a produced molecule is the violation. Termination of the five constructors is explored with Hypothesis byte mutations of docs/tests strings and two atheris campaigns (seeded and empty corpus) under a line-event budget.",
         "Trusted: each operator's claim that its output is invalid (stated per operator in gbsv/checks/c15.py); termination is bounded liveness: 20000+2000*len line events inside gbigsmiles.", "DESIGN.md §2 C15"),
 "C03": ("exhaustive enumeration of the finite descriptor-pair universe against a truth table (three construction routes)",
         "Every ordered pair of the finite universe named by the property is evaluated against a truth table written from the statement, through the constructor, through the token/terminal parser and through the candidate filter; symmetry and weight-independence are checked on the same pairs. Exhaustive over that universe, so for this universe the check decides the property.",
         "Trusted: the truth table in gbsv/checks/c03.py (ids compared numerically, none and '-' are single bonds).", "DESIGN.md §2 C03"),
}
# additions of the extension phase (appended to the level text)
MORE = {
 "C01": " Numbers are written in every float syntax Python reads (3, 3.0, .5, 03, 3e0, 3.e2, 5.E-01, 3E0, 30.0e-01).",
 "C02": " Numbers are written in every float syntax Python reads (3, 3.0, .5, 03, 3e0, 3.e2, 5.E-01, 3E0, 30.0e-01).",
 "C09": " Isotope-labelled repeat units are included; a wall-clock cap per sample only reduces the sample, never decides.",
 "C10": " Extension: one engine executes the operations for the machine and for --replay (literal histories, shrunk by ddmin); System objects (seeded single generation and complete ensembles against the baseline, abandoned iterations), shallow/deep copies, generation from the mirrored molecule, ensemble probability and force-field typing as perturbing operations; the string pool contains placement isomers (same fragment and descriptor texts, different attachment atoms) so that anything remembered under too coarse a key collides.",
 "C11": " Extension: every quantile of the draw - a scripted uniform stream (numpy Generator subclass answering uniform / standard_normal / poisson with the q-quantile of the primitive) over a grid of 212 (quick) / 2012 (thorough) quantiles with both tails to 1e-7 must give F_ref(x) >= q > F_ref(x-1) (discrete) resp. |F_ref(x) - q| <= 1e-6 (continuous); point probabilities are compared with the documented formula pointwise; Schulz-Zimm tolerances are the discretisation error computed from the documented density, not a 1/Mn bound; values of zero documented probability are outside the support.",
 "C13": " Extension: two iterations of the same object alive at once (alternately advanced, each must equal its solo run); one-component systems are re-run with the system mass 2e-6 and 3e-9 (relative) above and below a partial sum of the member sequence (near-ties of the stop rule).",
 "C14": " Extension: systems of 2-3 polymer components (five polymers x nine distributions, small molecules mixed in, half of them blends of two grades of the same polymer, i.e. identical text apart from the distribution) with membership decided by residue tags and a 6-sigma band from the measured size-biased member mass; a second ensemble of the same object advanced alternately.",
 "C15": " Extension: 18th operator at call level - generate(prefix=...) without the prefix or with a differing one, also after 1-2 correct calls on the same object; descriptors written between two atoms also carry weights in every float syntax.",
 "C16": " The graph is also built after generations, other reaction graphs and atom graphs on the same object.",
 "C17": " The graph is also built after other graphs / generations on the same object and generate() is repeated on the same graph object.",
 "C19": " Extension: 1-3 blocks are really explored (means of 1.3-3 units for multi-block chains, tails accounted for in the tolerance); neighbouring blocks with the same repeat unit are included and the reference is summed over all splits that build the same molecule (grouping by canonical SMILES); foreign molecules that are members through another split are recognised.",
}
NOT_YET = "check not built yet in this session (planned in DESIGN.md §2); not claimed until it runs clean on the unchanged tree"

checks, na = [], []
for p in props:
    pid = p["id"]
    if pid in CLAIMED:
        tech, text, note, ref = CLAIMED[pid]
        text = text + MORE.get(pid, "")
        checks.append({
            "property_id": pid,
            "quick_cmd": f"./check {pid} --tier quick",
            "thorough_cmd": f"./check {pid} --tier thorough",
            "evidence_file": f"/verif/evidence/{pid}.json",
            "replay_cmd_template": f"./check {pid} --replay {{path}}",
            "engine": "gbsv",
            "level_claimed": {"category": "exploration", "text": text, "design_ref": ref},
            "level_note": note,
            "technique": tech,
        })
    else:
        na.append({"property_id": pid, "reason": NOT_YET})
man = {
 "version": 1,
 "setup_cmd": "./setup.sh",
 "hooks": {"guard": "GBIGSMILES_VERIF", "enable": "no source hooks: every observation point is public API wrapped from the harness side (env GBIGSMILES_VERIF=1 is set by the harness but read by nothing in /repo)",
           "baseline_off_cmd": "cd /repo && /venv/bin/python -m pytest -ra -q -p no:cacheprovider --timeout=900 --continue-on-collection-errors",
           "source_commits": [], "add_only": True},
 "engines": [{"name": "gbsv", "path": "/verif/gbsv", "serves_properties": [c["property_id"] for c in checks],
              "kind_free_text": "property-based testing: Hypothesis strategies over a reference AST, exhaustive enumeration of finite universes and of scripted random-choice sequences, reference-model / round-trip / metamorphic / differential oracles, atheris for parser termination"}],
 "checks": checks,
 "notes": "All checks run /venv/bin/python against /repo/src (override with VERIF_REPO_SRC for mutation runs). VERIF_SEED selects the seed. Exit 2 = harness error, never a verdict.",
 "not_applicable": na,
}
json.dump(man, open(os.path.join(HERE, "MANIFEST.json"), "w"), indent=1)
print("claimed", [c["property_id"] for c in checks])
